--------------------------------- MODULE Link ---------------------------------
(***************************************************************************)
(* C18: a model of linking a client program against libcstl.               *)
(* Facts extracted from the real tree (by bin/check, for every run):       *)
(*   Headers            the public headers                                 *)
(*   HdrDefs[h]         external (strong) symbols a translation unit that  *)
(*                      includes h *defines* (nm of the compiled TU)       *)
(*   HdrDecls[h]        external functions h declares without a body       *)
(*   Members, MemDefs[m], MemUndefs[m]   objects of libcstl.a              *)
(*   SoDefs             dynamic symbols libcstl.so defines                 *)
(* A configuration: the set of headers every TU of the client includes,    *)
(* the number of TUs, whether the client takes the address of every        *)
(* declared function, and the library form.  The linker is a state         *)
(* machine: it starts from the client objects and (static case) pulls one  *)
(* archive member per step that defines a symbol still undefined.          *)
(* Only symbols of the library's own name space (cstl_ / __cstl_) are in   *)
(* the fact tables: everything else is the C library's.                    *)
(***************************************************************************)
EXTENDS Naturals, FiniteSets, Sequences, TLC
CONSTANTS Headers, HdrDefs, HdrDecls, Members, MemDefs, MemUndefs, SoDefs, HeaderSets
VARIABLES cfg, defs, undefs, pulled, dup, phase
vars == <<cfg, defs, undefs, pulled, dup, phase>>

ClientDefs(S) == UNION {HdrDefs[h] : h \in S}
ClientRefs(S, addr) == IF addr THEN UNION {HdrDecls[h] : h \in S} ELSE {}
Init == /\ cfg \in [hs : HeaderSets, ntu : {1, 2}, addr : BOOLEAN, lib : {"a", "so"}]
        /\ defs = ClientDefs(cfg.hs)
        \* the same strong definition in two translation units is a duplicate symbol
        /\ dup = (cfg.ntu = 2 /\ ClientDefs(cfg.hs) # {})
        /\ undefs = ClientRefs(cfg.hs, cfg.addr) \ ClientDefs(cfg.hs)
        /\ pulled = {} /\ phase = "link"
\* static archive: pull a member that defines something still undefined
Pull(m) == /\ phase = "link" /\ cfg.lib = "a" /\ m \notin pulled /\ MemDefs[m] \cap undefs # {}
           /\ pulled' = pulled \cup {m}
           /\ dup' = (dup \/ MemDefs[m] \cap defs # {})
           /\ defs' = defs \cup MemDefs[m]
           /\ undefs' = (undefs \cup MemUndefs[m]) \ (defs \cup MemDefs[m])
           /\ UNCHANGED <<cfg, phase>>
Finish == /\ phase = "link"
          /\ IF cfg.lib = "a" THEN ~\E m \in Members \ pulled : MemDefs[m] \cap undefs # {} ELSE TRUE
          /\ phase' = "done"
          /\ undefs' = IF cfg.lib = "so" THEN undefs \ SoDefs ELSE undefs
          /\ UNCHANGED <<cfg, defs, pulled, dup>>
Next == (\E m \in Members : Pull(m)) \/ Finish
Spec == Init /\ [][Next]_vars
NoDuplicateStrongDef == ~dup
NoUndefined == phase = "done" => undefs = {}
\* every declared function is provided inline by the header or by the library
AllProvided == \A h \in Headers : HdrDecls[h] \subseteq (SoDefs \cap UNION {MemDefs[m] : m \in Members}) \cup HdrDefs[h]
=============================================================================
