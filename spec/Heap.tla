-------------------------------- MODULE Heap --------------------------------
(* L0 for src/heap.c: push / pop / clear in every reachable heap shape; get,  *)
(* size and the structural invariants (complete tree, parent >= child) hold   *)
(* in every state.                                                            *)
EXTENDS HeapOps
VARIABLES st, ok
vars == <<st, ok>>
Init == st = Empty /\ ok = TRUE
DoPush(n) == /\ n \notin Members(st)
             /\ st' = Canon(Push(st, n))
             /\ ok' = PushContract(Members(st), Members(st'), n)
DoPop == LET r == Pop(st) IN
         /\ st' = Canon(r.s)
         /\ ok' = PopContract(Members(st), Members(st'), r.ret)
DoClear == LET c == ClearOp(st) IN
           /\ st' = Canon(c.s)
           /\ ok' = (ClearContract(Members(st), c.ev) /\ st'.root = 0 /\ st'.size = 0)
Next == (\E n \in Nodes : DoPush(n)) \/ DoPop \/ DoClear
Spec == Init /\ [][Next]_vars
InvOK == ok
InvHeap == HeapOK(st)
InvTop == TopContract(Members(st), Get(st))
=============================================================================
