------------------------------ MODULE TraceConc ------------------------------
(***************************************************************************)
(* C06 trace validation.  Each trace is a sequence of runs of the real     *)
(* src/memory.c under the deterministic scheduler (harness/drv_conc.c):    *)
(*   reset   a new run of a scenario (roles and operations per thread)     *)
(*   ev      one event of thread t: atomic / plain-access group / clear    *)
(*           callback / free, with the value it saw and the operations     *)
(*           the other threads were about to perform                       *)
(*   opstart / opend   boundaries of the public calls, with the thread's   *)
(*           pointer objects afterwards                                    *)
(*   done    all threads finished (final audit) ;  hang / crash            *)
(* L1 (Level = 1): the run is a behaviour of PtrConc: every event is the   *)
(*   Step of that thread and carries the value the model predicts.         *)
(* L2 (Level = 2): a monitor that knows nothing of the protocol: blocks    *)
(*   and their frees, the clear callback, accesses, ownership at the       *)
(*   boundaries of the public calls (the C05 oracle), conflicting pending  *)
(*   plain accesses (data race), hangs.                                    *)
(***************************************************************************)
EXTENDS PtrConc, Json, IOUtils
CONSTANT Level
Recs == ndJsonDeserialize(IOEnv.TRACE)
VARIABLES i, lost, mon
tvars == <<vars, i, lost, mon>>

Pad(q, dflt) == [t \in Threads |-> IF t <= Len(q) THEN q[t] ELSE dflt]
InitScenario(roles, progs, clr) ==
    LET r == Pad(roles, "none")  o == Pad(progs, <<"none">>) IN
    /\ role' = r /\ prog' = [t \in Threads |-> o[t] \o CleanUp]
    /\ s1' = [t \in Threads |-> F1(r[t])] /\ s2' = [t \in Threads |-> FALSE] /\ w' = [t \in Threads |-> FW(r[t])]
    /\ hard' = Card({t \in Threads : F1(r[t])})
    /\ soft' = Card({t \in Threads : F1(r[t])}) + Card({t \in Threads : FW(r[t])})
    /\ lock' = FALSE /\ data' = "live"
    /\ mem' = IF \E t \in Threads : F1(r[t]) THEN "live" ELSE "freed"
    /\ clrs' = IF (\E t \in Threads : F1(r[t])) \/ ~clr THEN 0 ELSE 1
    /\ bad' = FALSE
    /\ ip' = [t \in Threads |-> ResolveIp(END, o[t] \o CleanUp, 0, F1(r[t]), FALSE, FW(r[t]))]
    /\ pc' = [t \in Threads |-> Resolve(END, o[t] \o CleanUp, 0, F1(r[t]), FALSE, FW(r[t]))]
    /\ old' = [t \in Threads |-> 0] /\ got' = [t \in Threads |-> "none"]

(* ---- the protocol-agnostic monitor ---- *)
MonInit(rec) ==
    LET r == Pad(rec.roles, "none") IN
    [mem |-> rec.mem, data |-> TRUE, clrs |-> rec.clrs,
     own |-> {<<t, "s1">> : t \in {u \in Threads : F1(r[u])}},        \* committed owners
     ref |-> {<<t, "s1">> : t \in {u \in Threads : F1(r[u])}} \cup {<<t, "w">> : t \in {u \in Threads : FW(r[u])}},
     viol |-> FALSE]
\* objects an operation overwrites or lets go of: given up when the call starts
GivesUp(op) == CASE op = "reset1" -> {"s1"} [] op = "reset2" -> {"s2"} [] op = "share" -> {"s2"} [] op = "lock" -> {"s2"}
                 [] op = "wfrom" -> {"w"} [] op = "wreset" -> {"w"} [] OTHER -> {}
IsPlain(k) == k \in {"pr", "pw"}
Conflict(k1, o1, k2, o2) == IsPlain(k1) /\ IsPlain(k2) /\ o1 = o2 /\ ("pw" \in {k1, k2})
MonEv(m, rec) ==
    LET onData == rec.k \in {"fsub", "fadd", "xchg", "store", "load", "pr", "pw", "cas", "fand", "for", "fxor", "fnand"}
        freeM == rec.k = "free" /\ rec.o = -1
        freeD == rec.k = "free" /\ rec.o = -2
        race == \E j \in 1..Len(rec.pend) : Conflict(rec.k, rec.o, rec.pend[j][2], rec.pend[j][3])
        v == \/ (onData /\ ~m.data)                                  \* the bookkeeping block is accessed after it was freed
             \/ (freeM /\ (~m.mem \/ m.own # {} \/ (HasClr /\ m.clrs # 1)))    \* freed twice / while owned / before its clear callback
             \/ (freeD /\ (~m.data \/ m.ref # {} \/ m.mem))           \* freed twice / while referenced / before the memory
             \/ (rec.k = "clr" /\ (m.clrs # 0 \/ ~m.mem \/ m.own # {}))
             \/ (rec.k = "pr" /\ rec.o = 24 /\ FALSE)
             \/ race
    IN [m EXCEPT !.mem = IF freeM THEN FALSE ELSE @, !.data = IF freeD THEN FALSE ELSE @,
                 !.clrs = IF rec.k = "clr" THEN @ + 1 ELSE @, !.viol = @ \/ v]
MonStart(m, rec) == [m EXCEPT !.own = @ \ {<<rec.t, x>> : x \in GivesUp(rec.op)}, !.ref = @ \ {<<rec.t, x>> : x \in GivesUp(rec.op)}]
MonEnd(m, rec) ==
    LET gainS2 == rec.op \in {"share", "lock"} /\ rec.s2
        gainW == rec.op = "wfrom" /\ rec.w
        v == \/ (gainS2 /\ ~m.mem)               \* an owner was obtained over memory that is already gone
             \/ (gainS2 /\ ~m.data) \/ (gainW /\ ~m.data)
             \/ (rec.op = "share" /\ rec.s2 # (<<rec.t, "s1">> \in m.own))       \* share from a live owner always yields an owner
             \/ (rec.op = "lock" /\ rec.s2 /\ <<rec.t, "w">> \notin m.ref)
             \/ (rec.op = "lock" /\ ~rec.s2 /\ <<rec.t, "w">> \in m.ref /\ <<rec.t, "s1">> \in m.own)   \* own owner exists: lock must succeed
    IN [m EXCEPT !.own = IF gainS2 THEN @ \cup {<<rec.t, "s2">>} ELSE @,
                 !.ref = (IF gainS2 THEN @ \cup {<<rec.t, "s2">>} ELSE @) \cup (IF gainW THEN {<<rec.t, "w">>} ELSE {}),
                 !.viol = @ \/ v]
MonDone(m, rec) ==
    [m EXCEPT !.viol = @ \/ m.mem \/ m.data \/ m.clrs # (IF HasClr THEN 1 ELSE 0) \/ rec.live # 0 \/ rec.dfrees # 0
                          \/ rec.clrs # (IF HasClr THEN 1 ELSE 0) \/ m.own # {} \/ m.ref # {}]

Report(kind, rec) == PrintT(<<kind, "C06", rec.id>>)
TInit == /\ i = 1 /\ lost = TRUE /\ mon = [viol |-> FALSE]
         /\ role = [t \in Threads |-> "none"] /\ prog = [t \in Threads |-> <<>>]
         /\ s1 = [t \in Threads |-> FALSE] /\ s2 = [t \in Threads |-> FALSE] /\ w = [t \in Threads |-> FALSE]
         /\ hard = 0 /\ soft = 0 /\ lock = FALSE /\ mem = "freed" /\ data = "freed" /\ clrs = 0 /\ bad = FALSE
         /\ ip = [t \in Threads |-> 0] /\ pc = [t \in Threads |-> DONE] /\ old = [t \in Threads |-> 0] /\ got = [t \in Threads |-> "none"]
Keep == UNCHANGED vars
\* L1: the event is the model's step of that thread, with the value the model predicts
Follows(rec) == /\ pc[rec.t] # DONE /\ Event(rec.t) = <<rec.k, rec.o, rec.old>>
TNext ==
    /\ i < Len(Recs) /\ i' = i + 1
    /\ LET rec == Recs[i + 1] IN
       CASE rec.e = "reset" ->
              /\ InitScenario(rec.roles, rec.progs, rec.clr) /\ lost' = FALSE /\ mon' = MonInit(rec)
         [] rec.e = "ev" ->
              /\ LET m2 == IF Level = 2 /\ ~mon.viol THEN MonEv(mon, rec) ELSE mon IN
                 mon' = m2 /\ (IF Level # 2 \/ mon.viol \/ ~m2.viol THEN TRUE ELSE Report("L2FAIL", rec))
              /\ IF Level = 1 /\ ~lost
                 THEN IF Follows(rec) THEN Step(rec.t) /\ lost' = FALSE
                      ELSE Keep /\ lost' = TRUE /\ Report("L1DRIFT", rec)
                 ELSE Keep /\ UNCHANGED lost
         [] rec.e = "opstart" ->
              /\ Keep /\ UNCHANGED lost /\ mon' = IF Level = 2 THEN MonStart(mon, rec) ELSE mon
         [] rec.e = "opend" ->
              /\ Keep /\ UNCHANGED lost
              /\ LET m2 == IF Level = 2 /\ ~mon.viol THEN MonEnd(mon, rec) ELSE mon IN
                 mon' = m2 /\ (IF Level # 2 \/ mon.viol \/ ~m2.viol THEN TRUE ELSE Report("L2FAIL", rec))
         [] rec.e = "done" ->
              /\ Keep /\ UNCHANGED lost
              /\ LET m2 == IF Level = 2 /\ ~mon.viol THEN MonDone(mon, rec) ELSE mon IN
                 mon' = m2 /\ (IF Level # 2 \/ mon.viol \/ ~m2.viol THEN TRUE ELSE Report("L2FAIL", rec))
              /\ (IF Level # 1 \/ lost \/ (AllDone /\ ~bad /\ Final) THEN TRUE ELSE Report("L1DRIFT", rec))
         [] rec.e \in {"hang", "crash"} ->
              /\ Keep /\ UNCHANGED lost /\ mon' = [mon EXCEPT !.viol = TRUE]
              /\ (IF Level # 2 THEN TRUE ELSE Report("L2FAIL", rec))      \* a thread waits forever / the code crashed
         [] OTHER -> Keep /\ UNCHANGED <<lost, mon>>
TSpec == TInit /\ [][TNext]_tvars
Done == i = Len(Recs) => PrintT(<<"TRACE-END", i>>)
=============================================================================
