------------------------------- MODULE GenTree -------------------------------
(* Behaviours out of TLC: the Tree machine with a history variable; in simulation *)
(* mode every behaviour of the chosen depth is printed as a JSON list of          *)
(* operations, replayed into the real code by the driver and validated like any   *)
(* other recorded trace (spec -> code direction of the binding).                  *)
EXTENDS Tree, Json
CONSTANT GenDepth
VARIABLE hist
GInit == Init /\ hist = <<>>
GNext == \/ \E n \in Nodes, h \in BOOLEAN : Insert(n, h) /\ hist' = Append(hist, [op |-> "ins", n |-> n, h |-> h])
         \/ \E k \in Keys : Erase(k) /\ hist' = Append(hist, [op |-> "era", k |-> k])
         \/ Clear /\ st.size > 3 /\ hist' = Append(hist, [op |-> "clear"])
GSpec == GInit /\ [][GNext]_<<vars, hist>>
Emit == IF Len(hist) < GenDepth THEN TRUE ELSE PrintT(ToJson(hist))
Bound == Len(hist) <= GenDepth
=============================================================================
