------------------------------ MODULE TraceVec ------------------------------
(* Trace validation for the vector driver (real src/vector.c).                *)
(*   L1: VecOps predicts the exact post-state, events and outcome.            *)
(*   L2: C09 only: count <= cap, storage covers (cap+1)*Esz bytes of one live *)
(*       allocation, surviving elements keep their bytes, at aborts iff out   *)
(*       of range, unsatisfiable growth = quiet no-op (reserve) / abort       *)
(*       (resize), constructor/destructor exactly once per slot, no guard     *)
(*       byte damaged.                                                        *)
EXTENDS VecOps, Json, IOUtils
CONSTANT Level
Recs == ndJsonDeserialize(IOEnv.TRACE)
ToSt(j) == [base |-> j.base, blk |-> j.blk, count |-> j.count, cap |-> j.cap, tags |-> j.tags]
Sane(j) == ~j.bad /\ ~j.damage
Aux(j) == <<j.cur, j.ocount, j.obase>>
AllocKinds == {"alloc", "realloc", "free", "allocfail"}
Norm(ev) == [i \in 1..Len(ev) |-> IF ev[i][1] \in AllocKinds THEN <<ev[i][1]>> ELSE ev[i]]

Model(rec) ==
    LET pre == ToSt(rec.pre) IN
    CASE rec.op = "reserve" -> ReserveOp(pre, rec.t, ~rec.fail)
      [] rec.op = "resize"  -> ResizeOp(pre, rec.t, ~rec.fail)
      [] rec.op = "shrink"  -> ShrinkOp(pre, ~rec.fail)
      [] rec.op = "clear"   -> ClearOp(pre)
      [] rec.op = "sort"    -> Mk(SortOp(pre))
      [] rec.op = "reverse" -> Mk(ReverseOp(pre))
      [] OTHER -> Mk(pre)
StepOK(rec) ==
    IF ~Sane(rec.pre) THEN FALSE
    ELSE IF rec.op = "swap" THEN rec.out = "ok" /\ Sane(rec.post) /\ ToSt(rec.post) = ToSt(rec.pre)
                                 /\ rec.post.cur = 1 - rec.pre.cur /\ rec.post.ocount = 0 /\ ~rec.post.obase
    ELSE IF rec.op = "at" THEN LET a == AtOp(ToSt(rec.pre), rec.t) IN
                               rec.out = (IF a.ab THEN "abort" ELSE "ok") /\ (~a.ab => rec.ret = a.off /\ rec.post = rec.pre)
    ELSE LET m == Model(rec) IN
         /\ rec.out = (IF m.ab THEN "abort" ELSE "ok")
         /\ Norm(rec.ev) = m.ev
         /\ ~m.ab => /\ Sane(rec.post) /\ ToSt(rec.post) = m.s /\ Aux(rec.post) = Aux(rec.pre)
                     /\ rec.post.nlive = (IF m.s.base THEN 1 ELSE 0)
                     /\ rec.op = "stat" => rec.size = m.s.count /\ rec.capacity = m.s.cap /\ rec.data = m.s.base

C09OK(rec) ==
    LET pre == ToSt(rec.pre) IN
    /\ rec.out \in {"ok", "abort"}
    /\ rec.out = "abort" <=>
          \/ rec.op = "at" /\ ~(Small(rec.t) /\ rec.t.n < pre.count)
          \/ rec.op = "resize" /\ ~(Small(rec.t) /\ (~rec.fail \/ rec.t.n <= pre.cap))
    /\ rec.out = "ok" =>
       LET post == ToSt(rec.post) IN
       /\ Sane(rec.post) /\ StorageOK(post)
       /\ rec.post.ocount = 0 /\ ~rec.post.obase
       /\ rec.post.nlive = (IF post.base THEN 1 ELSE 0)         \* nothing leaked, nothing double-freed
       /\ CASE rec.op = "reserve" -> /\ post.count = pre.count /\ post.tags = pre.tags /\ XtorOK(pre, post, rec.ev)
                                     /\ (~Small(rec.t) => post.cap = pre.cap)
                                     /\ (Small(rec.t) /\ ~rec.fail => post.cap >= rec.t.n)
                                     /\ post.cap >= pre.cap
            [] rec.op = "resize"  -> post.count = rec.t.n /\ KeepOK(pre, post) /\ XtorOK(pre, post, rec.ev)
                                     /\ \A i \in (pre.count + 1)..post.count : post.tags[i] = i
            [] rec.op = "shrink"  -> post.count = pre.count /\ post.tags = pre.tags /\ XtorOK(pre, post, rec.ev)
                                     /\ (~rec.fail => post.cap = pre.count)
            [] rec.op = "clear"   -> post.count = 0 /\ post.cap = 0 /\ ~post.base /\ XtorOK(pre, post, rec.ev)
            [] rec.op = "sort"    -> IsPerm(post.tags, pre.tags) /\ Sorted(post.tags) /\ post.cap = pre.cap /\ XtorOK(pre, post, rec.ev)
            [] rec.op = "reverse" -> post.tags = Rev(pre.tags) /\ post.cap = pre.cap /\ XtorOK(pre, post, rec.ev)
            [] rec.op = "at"      -> rec.ret = rec.t.n * Esz /\ post = pre
            [] rec.op = "swap"    -> post = pre
            [] rec.op = "stat"    -> post = pre /\ rec.size = pre.count /\ rec.capacity = pre.cap
            [] OTHER -> FALSE
\* C16: with the allocator failing, reserve and shrink quietly do nothing, growth aborts,
\* the vector holds what it held (C09OK states exactly that for rec.fail)
C16OK(rec) == (rec.op \in {"reserve", "resize", "shrink"} /\ rec.fail) =>
                 /\ C09OK(rec)
                 /\ rec.out = "ok" => (ToSt(rec.post).count = (IF rec.op = "resize" THEN rec.t.n ELSE ToSt(rec.pre).count))
                 /\ (rec.out = "ok" /\ \E k \in 1..Len(rec.ev) : rec.ev[k][1] = "allocfail") => ToSt(rec.post) = ToSt(rec.pre)
ModelTerms == {[k |-> "n", n |-> x] : x \in 0..Recs[1].maxn} \cup {[k |-> "max", n |-> x] : x \in 0..1}
              \cup {[k |-> "maxdiv", n |-> x] : x \in (IF Esz > 1 THEN {-1, 0, 1} ELSE {-1, 0})}
              \cup {[k |-> "pow", n |-> e] : e \in 61..63}
ModelOps(rec) ==
    {[op |-> o, t |-> t, fail |-> f] : o \in {"reserve", "resize"}, t \in ModelTerms, f \in BOOLEAN}
    \cup {[op |-> "shrink", fail |-> f] : f \in BOOLEAN} \cup {[op |-> "clear"], [op |-> "sort"], [op |-> "reverse"]}
\* In a closure the records of one state are contiguous (field g on the first of them = how many).  Every transition
\* the L0 machine can take from that state (ModelOps) must be among the operations the driver applied to the real
\* code there (the driver applies read-only probes on top).  Recs[1] is the trace header (the scope).
Applied(k, o) == \E j \in k..(k + Recs[k].g - 1) : Recs[j].op = o.op /\ \A f \in DOMAIN o : Recs[j][f] = o[f]
OpsOK(k) == LET rec == Recs[k] IN ~Sane(rec.pre) \/ \A o \in ModelOps(rec) : Applied(k, o)
VARIABLE i
Judge(rec) ==
    /\ (IF Level # 2 \/ C16OK(rec) THEN TRUE ELSE PrintT(<<"L2FAIL", "C16", rec.id>>))
    /\ (IF Level # 2 \/ C09OK(rec) THEN TRUE ELSE PrintT(<<"L2FAIL", "C09", rec.id>>))
    /\ (IF Level # 1 \/ StepOK(rec) THEN TRUE ELSE PrintT(<<"L1DRIFT", "vec", rec.id>>))
TInit == i = 1
TNext == i < Len(Recs) /\ i' = i + 1 /\ Judge(Recs[i + 1])
         /\ (IF Level # 1 \/ Recs[i + 1].g = 0 \/ OpsOK(i + 1) THEN TRUE ELSE PrintT(<<"OPSDIFF", "vec", Recs[i + 1].id>>))
TSpec == TInit /\ [][TNext]_i
Done == i = Len(Recs) => PrintT(<<"TRACE-END", i>>)
=============================================================================
