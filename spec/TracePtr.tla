------------------------------ MODULE TracePtr ------------------------------
(* Trace validation for the smart-pointer driver (real src/memory.c).          *)
(*   L1: PtrOps predicts the exact post-state (incl. the hard/soft words read  *)
(*       from the bookkeeping block), return value and event sequence.         *)
(*   L2: C05 (exactly-once clear/free at the moment the last owner / last      *)
(*       reference goes, lock, unique, get, no leak) and C20 (a stray          *)
(*       bit-copy aborts the first call that reads it; proper objects never).  *)
EXTENDS PtrOps, Json, IOUtils
CONSTANT Level
Recs == ndJsonDeserialize(IOEnv.TRACE)
ToSt(j) == [sp |-> [x \in SP |-> j.sp[x]], wp |-> [x \in WP |-> j.wp[x]],
            al |-> [d \in 1..Len(j.al) |-> [hard |-> j.al[d].hard, soft |-> j.al[d].soft, mem |-> j.al[d].mem, clr |-> j.al[d].clr]],
            up |-> [x \in UP |-> [has |-> j.up[x].has, clr |-> j.up[x].clr]]]
Sane(j) == ~j.bad /\ ~j.damage
F1(q) == [x \in 1..Len(q) |-> q[x]]
StepOK(rec) ==
    IF ~Sane(rec.pre) THEN FALSE
    ELSE IF rec.op = "stray" THEN rec.out = (IF StrayAborts(rec.f, rec.pos) THEN "abort" ELSE "ok")
    ELSE LET r == Apply(ToSt(rec.pre), rec) IN
         /\ rec.out = "ok" /\ Sane(rec.post)
         /\ ToSt(rec.post) = Canon(r.m.s) /\ rec.ret = r.ret /\ rec.ev = r.m.ev
C05OK(rec) ==
    IF rec.op = "stray" THEN TRUE ELSE
    /\ rec.out = "ok" /\ Sane(rec.post)
    /\ Contract(rec, ToSt(rec.pre), ToSt(rec.post), rec.post.nlive, F1(rec.tsp), F1(rec.twp), rec.ev, rec.ret)
C20OK(rec) ==
    IF rec.op = "stray" THEN rec.out = (IF StrayAborts(rec.f, rec.pos) THEN "abort" ELSE "ok")
    ELSE rec.out = "ok"                    \* objects moved only with the provided functions never abort
\* C16: a failed smart-pointer allocation leaves the object empty, nothing leaked
C16OK(rec) == (rec.op \in {"salloc", "ualloc"} /\ \E k \in 1..Len(rec.ok) : ~rec.ok[k]) => C05OK(rec)
ExtraOps == {"stray"}
\* In a closure the records of one state are contiguous (field g on the first of them = how many): the operations the
\* driver applied in that state must be exactly the model's own OpSet for it - no operation of the model is left
\* untried on the real code in any reachable state, and the driver tries nothing the model does not know.
\* (Recs[1] is the trace header: it carries the scope the driver was run with.)
GroupOps(k, S) ==
    LET names == {o.op : o \in S}
        FieldsOf(nm) == DOMAIN (CHOOSE o \in S : o.op = nm)
        J == {j \in k..(k + Recs[k].g - 1) : Recs[j].op \in names}
    IN {[f \in FieldsOf(Recs[j].op) |-> Recs[j][f]] : j \in J}
OpsOK(k) == LET rec == Recs[k]  S == OpSetF(Recs[1].faults) IN
            ~Sane(rec.pre) \/ (/\ GroupOps(k, S) = S
                               /\ \A j \in k..(k + rec.g - 1) : Recs[j].op \in {o.op : o \in S} \cup ExtraOps)
VARIABLE i
Judge(rec) ==
    /\ (IF Level # 2 \/ C16OK(rec) THEN TRUE ELSE PrintT(<<"L2FAIL", "C16", rec.id>>))
    /\ (IF Level # 2 \/ C05OK(rec) THEN TRUE ELSE PrintT(<<"L2FAIL", "C05", rec.id>>))
    /\ (IF Level # 2 \/ C20OK(rec) THEN TRUE ELSE PrintT(<<"L2FAIL", "C20", rec.id>>))
    /\ (IF Level # 1 \/ StepOK(rec) THEN TRUE ELSE PrintT(<<"L1DRIFT", "ptr", rec.id>>))
TInit == i = 1
TNext == i < Len(Recs) /\ i' = i + 1 /\ Judge(Recs[i + 1])
         /\ (IF Level # 1 \/ Recs[i + 1].g = 0 \/ OpsOK(i + 1) THEN TRUE ELSE PrintT(<<"OPSDIFF", "ptr", Recs[i + 1].id>>))
TSpec == TInit /\ [][TNext]_i
Done == i = Len(Recs) => PrintT(<<"TRACE-END", i>>)
=============================================================================
