------------------------------- MODULE VecWord -------------------------------
(***************************************************************************)
(* C09, the size arithmetic of cstl_vector_set_capacity in a small word:   *)
(* SIZE_MAX := W - 1, every request 0..W-1, every element size in Sizes.   *)
(* All arithmetic wraps modulo W exactly as size_t arithmetic does.  The   *)
(* invariant is the heart of C09: the block is large enough for cap+1      *)
(* elements (computed without wrapping).  With Guarded = FALSE (the code   *)
(* as pinned) TLC finds reserve(W-1) reporting a capacity it has no        *)
(* storage for; with the repair it explores every request exhaustively.    *)
(***************************************************************************)
EXTENDS Naturals, TLC
CONSTANTS W, Sizes, Guarded, AllocLimit
VARIABLES esz, count, cap, blk, aborted
vars == <<esz, count, cap, blk, aborted>>
Init == esz \in Sizes /\ count = 0 /\ cap = 0 /\ blk = 0 /\ aborted = FALSE
Wrap(x) == x % W
\* set_capacity: realloc((sz + 1) * size); the allocator serves requests up to AllocLimit bytes
SetCap(sz) ==
    IF Guarded /\ sz >= (W - 1) \div esz THEN UNCHANGED <<cap, blk>>
    ELSE LET bytes == Wrap(Wrap(sz + 1) * esz)
         IN IF bytes <= AllocLimit /\ bytes > 0 THEN cap' = sz /\ blk' = bytes
            ELSE UNCHANGED <<cap, blk>>
Reserve(sz) == /\ ~aborted /\ (IF sz > cap THEN SetCap(sz) ELSE UNCHANGED <<cap, blk>>)
               /\ UNCHANGED <<esz, count, aborted>>
Resize(sz) == /\ ~aborted
              /\ (IF sz > cap THEN SetCap(sz) ELSE UNCHANGED <<cap, blk>>)
              /\ IF cap' < sz THEN aborted' = TRUE /\ UNCHANGED count ELSE count' = sz /\ UNCHANGED aborted
              /\ UNCHANGED esz
Shrink == /\ ~aborted /\ cap > count /\ SetCap(count) /\ UNCHANGED <<esz, count, aborted>>
Next == (\E sz \in 0..(W - 1) : Reserve(sz) \/ Resize(sz)) \/ Shrink
Spec == Init /\ [][Next]_vars
StorageOK == count <= cap /\ (cap > 0 => blk >= (cap + 1) * esz)
=============================================================================
