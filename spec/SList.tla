-------------------------------- MODULE SList --------------------------------
(***************************************************************************)
(* L0 for src/slist.c: every enabled operation (OpSet) is applied in every *)
(* reachable link state; `ok` records whether the concrete result is a     *)
(* well-formed set of lists and satisfies the sequence contract of C13.    *)
(***************************************************************************)
EXTENDS SListOps
VARIABLES st, ok
vars == <<st, ok>>
Init == st = Init0 /\ ok = TRUE
Step(o) == LET r == Apply(st, o) IN
           /\ st' = Canon(r.s)
           /\ ok' = (WF(r.s) /\ Contract(o, Seqs(st), Seqs(r.s), r.ret, r.ev))
Next == \E o \in OpSet(st, TRUE) : Step(o)
Spec == Init /\ [][Next]_vars
InvOK == ok
InvWF == WF(st)
=============================================================================
