------------------------------- MODULE GenHash -------------------------------
(* Behaviours out of TLC for the hash table (see GenTree).                       *)
EXTENDS Hash, Json
CONSTANT GenDepth
VARIABLE hist
GInit == Init /\ hist = <<>>
GNext == \/ \E c \in 1..MaxB, f \in Funcs : DoResize(c, f, TRUE) /\ hist' = Append(hist, [op |-> "resize", cnt |-> c, f |-> f])
         \/ DoRehash /\ hist' = Append(hist, [op |-> "rehash"])
         \/ DoShrink(TRUE) /\ hist' = Append(hist, [op |-> "shrink"])
         \/ \E e \in Elems : DoInsert(e) /\ hist' = Append(hist, [op |-> "insert", e |-> e])
         \/ \E e \in Elems : DoErase(e) /\ hist' = Append(hist, [op |-> "erase", e |-> e])
         \/ \E k \in Keys : DoFind(k) /\ hist' = Append(hist, [op |-> "find", k |-> k])
         \/ \E stop \in 0..2 : DoForeach(stop, FALSE) /\ hist' = Append(hist, [op |-> "foreach", stop |-> stop])
GSpec == GInit /\ [][GNext]_<<vars, hist>>
Emit == IF Len(hist) < GenDepth THEN TRUE ELSE PrintT(ToJson(hist))
Bound == Len(hist) <= GenDepth
=============================================================================
