------------------------------ MODULE SListOps ------------------------------
(***************************************************************************)
(* Pointer-level model of src/slist.c and the contract of C13 (and the     *)
(* slist part of C15).  NL list objects share one pool of N nodes.         *)
(* A pointer is a node id 1..N, 0 (NULL), or -j: the head link `h` of      *)
(* list j (what `t` points at when the list is empty).                     *)
(* State: hn (h.n), t, count per list; nx per node.                        *)
(* insert_after / erase_after / reverse / concat / swap / clear / foreach  *)
(* are transcribed statement by statement; sort is modelled on the         *)
(* sequence (its scratch lists live on the C stack) and written back.      *)
(***************************************************************************)
EXTENDS Naturals, Integers, Sequences, FiniteSets, TLC

CONSTANTS N, NL, Val
Nodes == 1..N
Lists == 1..NL

Init0 == [hn |-> [l \in Lists |-> 0], t |-> [l \in Lists |-> -l], count |-> [l \in Lists |-> 0],
          nx |-> [n \in Nodes |-> 0],
          \* which link member of the elements a list object is configured with (see DListOps)
          offk |-> [l \in Lists |-> IF l % 2 = 1 THEN 1 ELSE 2]]

Nx(s, x) == IF x > 0 THEN s.nx[x] ELSE s.hn[-x]
SetNx(s, x, v) == IF x > 0 THEN [s EXCEPT !.nx[x] = v] ELSE [s EXCEPT !.hn[-x] = v]

(* __cstl_slist_insert_after(sl, in, nn) *)
InsAfterP(s, l, in, nn) ==
    LET s1 == SetNx(s, nn, Nx(s, in))
        s2 == SetNx(s1, in, nn)
        s3 == IF s2.t[l] = in THEN [s2 EXCEPT !.t[l] = nn] ELSE s2
    IN [s3 EXCEPT !.count[l] = @ + 1]
(* __cstl_slist_erase_after(sl, e): [s, n] *)
EraseAfterP(s, l, e) ==
    LET n == Nx(s, e)
        s1 == SetNx(s, e, Nx(s, n))
        s2 == IF s1.t[l] = n THEN [s1 EXCEPT !.t[l] = e] ELSE s1
    IN [s |-> [s2 EXCEPT !.count[l] = @ - 1], n |-> n]

PushFront(s, l, e) == InsAfterP(s, l, -l, e)
PushBack(s, l, e) == InsAfterP(s, l, s.t[l], e)
\* documented: NULL on an empty list
PopFront(s, l) == IF s.count[l] = 0 THEN [s |-> s, ret |-> 0]
                  ELSE LET r == EraseAfterP(s, l, -l) IN [s |-> r.s, ret |-> r.n]
Front(s, l) == IF s.t[l] = -l THEN 0 ELSE s.hn[l]
Back(s, l) == IF s.t[l] = -l THEN 0 ELSE s.t[l]

(* cstl_slist_reverse *)
RECURSIVE RevLoop(_, _, _, _)
RevLoop(s, l, c, fuel) ==
    IF fuel = 0 \/ Nx(s, c) = 0 THEN s
    ELSE LET n == Nx(s, c)
             s1 == SetNx(s, c, Nx(s, n))
             s2 == SetNx(s1, n, s1.hn[l])
         IN RevLoop([s2 EXCEPT !.hn[l] = n], l, c, fuel - 1)
Reverse(s, l) == IF s.count[l] > 1
                 THEN LET c == s.hn[l] IN [RevLoop(s, l, c, N + 1) EXCEPT !.t[l] = c]
                 ELSE s
(* cstl_slist_concat(dst, src), dst # src *)
Concat(s, d, src) ==
    IF s.count[src] > 0
    THEN LET s1 == SetNx(s, s.t[d], s.hn[src])
             s2 == [s1 EXCEPT !.t[d] = s1.t[src], !.count[d] = @ + s1.count[src]]
         IN [s2 EXCEPT !.hn[src] = 0, !.t[src] = -src, !.count[src] = 0]
    ELSE s
(* cstl_slist_swap(a, b), a # b *)
Swap(s, a, b) ==
    LET s1 == [s EXCEPT !.hn[a] = s.hn[b], !.hn[b] = s.hn[a], !.t[a] = s.t[b], !.t[b] = s.t[a],
                        !.count[a] = s.count[b], !.count[b] = s.count[a],
                        !.offk[a] = s.offk[b], !.offk[b] = s.offk[a]]
        s2 == IF s1.count[a] = 0 THEN [s1 EXCEPT !.t[a] = -a] ELSE s1
    IN IF s2.count[b] = 0 THEN [s2 EXCEPT !.t[b] = -b] ELSE s2

(* ---- abstraction ------------------------------------------------------- *)
RECURSIVE WalkF(_, _, _)
WalkF(s, x, fuel) == IF x = 0 THEN <<>>
                     ELSE IF fuel = 0 \/ x < 0 THEN <<-999>>
                     ELSE <<x>> \o WalkF(s, s.nx[x], fuel - 1)
Fwd(s, l) == WalkF(s, s.hn[l], N + 1)
SeqSet(q) == {q[i] : i \in 1..Len(q)}
NoDup(q) == \A i, j \in 1..Len(q) : i # j => q[i] # q[j]
Rev(q) == [i \in 1..Len(q) |-> q[Len(q) + 1 - i]]
Seqs(s) == [l \in Lists |-> Fwd(s, l)]
AllMembers(s) == UNION {SeqSet(Fwd(s, l)) : l \in Lists}

Clear(s, l) == [s |-> [s EXCEPT !.hn[l] = 0, !.t[l] = -l, !.count[l] = 0], ev |-> Fwd(s, l)]
\* what the driver's visit function returns at its stop-th call: any non-zero value must stop the walk and
\* come back unchanged, so the values vary in sign and size (engine.h e_stopval)
StopVal(k) == CASE k % 3 = 1 -> 100 + k [] k % 3 = 2 -> 0 - (100 + k) [] OTHER -> IF k % 2 = 1 THEN 1 ELSE 0 - 1
Cut(w, stop) == IF stop > 0 /\ stop <= Len(w) THEN [w |-> SubSeq(w, 1, stop), ret |-> StopVal(stop)]
                ELSE [w |-> w, ret |-> 0]
\* er: the visit function takes the visited element out of the list (it is the front by then: every element before
\* it went the same way) and reuses its memory - the next link must have been read before the visit
RECURSIVE PopN(_, _, _)
PopN(s, l, n) == IF n = 0 THEN s ELSE PopN(PopFront(s, l).s, l, n - 1)
Foreach(s, l, stop, er) == LET c == Cut(Fwd(s, l), stop) IN
                           [s |-> IF er THEN PopN(s, l, Len(c.w)) ELSE s, ev |-> c.w, ret |-> c.ret]

RECURSIVE Merge(_, _)
Merge(a, b) == IF a = <<>> THEN b ELSE IF b = <<>> THEN a
               ELSE IF Val[Head(a)] <= Val[Head(b)] THEN <<Head(a)>> \o Merge(Tail(a), b)
               ELSE <<Head(b)>> \o Merge(a, Tail(b))
RECURSIVE MSort(_)
MSort(q) == IF Len(q) <= 1 THEN q
            ELSE LET h == Len(q) \div 2
                 IN Merge(MSort(SubSeq(q, 1, h)), MSort(SubSeq(q, h + 1, Len(q))))
Build(s, l, q) ==
    LET n == Len(q) IN
    IF n = 0 THEN [s EXCEPT !.hn[l] = 0, !.t[l] = -l, !.count[l] = 0]
    ELSE [s EXCEPT !.hn[l] = q[1], !.t[l] = q[n], !.count[l] = n,
                   !.nx = [x \in Nodes |-> IF \E i \in 1..n : q[i] = x
                                           THEN LET i == CHOOSE i \in 1..n : q[i] = x IN IF i = n THEN 0 ELSE q[i + 1]
                                           ELSE s.nx[x]]]
Sort(s, l) == IF s.count[l] > 1 THEN Build(s, l, MSort(Fwd(s, l))) ELSE s

Canon(s) == LET M == AllMembers(s) IN
            [s EXCEPT !.nx = [x \in Nodes |-> IF x \in M THEN s.nx[x] ELSE 0]]

(***************************************************************************)
(* Contract (C13)                                                          *)
(***************************************************************************)
\* the tail invariant: t is the true last node (or the head link when empty)
\* and nothing follows it
TailOK(s, l) == LET f == Fwd(s, l) IN
                IF f = <<>> THEN s.t[l] = -l /\ s.hn[l] = 0
                ELSE s.t[l] = f[Len(f)] /\ s.nx[f[Len(f)]] = 0
WF(s) == /\ \A l \in Lists : LET f == Fwd(s, l) IN
              /\ -999 \notin SeqSet(f) /\ NoDup(f)
              /\ s.count[l] = Len(f)
              /\ TailOK(s, l)
         /\ \A a, b \in Lists : a # b => SeqSet(Fwd(s, a)) \cap SeqSet(Fwd(s, b)) = {}
Others(q, qq, ls) == \A l \in Lists \ ls : qq[l] = q[l]
Remove(q, e) == SelectSeq(q, LAMBDA x : x # e)
Pos(q, e) == CHOOSE i \in 1..Len(q) : q[i] = e
InsAfter(q, pe, e) == LET i == Pos(q, pe) IN SubSeq(q, 1, i) \o <<e>> \o SubSeq(q, i + 1, Len(q))
IsSortedPermOf(r, q) == /\ Len(r) = Len(q) /\ SeqSet(r) = SeqSet(q) /\ NoDup(r)
                        /\ \A i \in 1..(Len(r) - 1) : Val[r[i]] <= Val[r[i + 1]]

R3(s, ret, ev) == [s |-> s, ret |-> ret, ev |-> ev]
Apply(s, o) ==
    CASE o.op = "pushf"  -> R3(PushFront(s, o.l, o.e), 0, <<>>)
      [] o.op = "pushb"  -> R3(PushBack(s, o.l, o.e), 0, <<>>)
      [] o.op = "popf"   -> LET r == PopFront(s, o.l) IN R3(r.s, r.ret, <<>>)
      [] o.op = "insert" -> R3(InsAfterP(s, o.l, o.pe, o.e), 0, <<>>)
      [] o.op = "erasea" -> LET r == EraseAfterP(s, o.l, o.pe) IN R3(r.s, r.n, <<>>)
      [] o.op = "reverse" -> R3(Reverse(s, o.l), 0, <<>>)
      [] o.op = "sort"   -> R3(Sort(s, o.l), 0, <<>>)
      [] o.op = "concat" -> R3(Concat(s, o.d, o.src), 0, <<>>)
      [] o.op = "swap"   -> R3(Swap(s, o.a, o.b), 0, <<>>)
      [] o.op = "foreach" -> LET r == Foreach(s, o.l, o.stop, o.er) IN R3(r.s, r.ret, r.ev)
      [] o.op = "clear"  -> LET r == Clear(s, o.l) IN R3(r.s, 0, r.ev)
      [] o.op = "peek"   -> R3(s, <<Front(s, o.l), Back(s, o.l), s.count[o.l]>>, <<>>)

Contract(o, q, qq, ret, ev) ==
    CASE o.op = "pushf"  -> qq[o.l] = <<o.e>> \o q[o.l] /\ Others(q, qq, {o.l})
      [] o.op = "pushb"  -> qq[o.l] = Append(q[o.l], o.e) /\ Others(q, qq, {o.l})
      [] o.op = "popf"   -> /\ Others(q, qq, {o.l})
                            /\ IF q[o.l] = <<>> THEN ret = 0 /\ qq[o.l] = <<>>
                               ELSE ret = Head(q[o.l]) /\ qq[o.l] = Tail(q[o.l])
      [] o.op = "insert" -> qq[o.l] = InsAfter(q[o.l], o.pe, o.e) /\ Others(q, qq, {o.l})
      [] o.op = "erasea" -> /\ ret = q[o.l][Pos(q[o.l], o.pe) + 1]
                            /\ qq[o.l] = Remove(q[o.l], ret) /\ Others(q, qq, {o.l})
      [] o.op = "reverse" -> qq[o.l] = Rev(q[o.l]) /\ Others(q, qq, {o.l})
      [] o.op = "sort"   -> IsSortedPermOf(qq[o.l], q[o.l]) /\ Others(q, qq, {o.l})
      [] o.op = "concat" -> qq[o.d] = q[o.d] \o q[o.src] /\ qq[o.src] = <<>> /\ Others(q, qq, {o.d, o.src})
      [] o.op = "swap"   -> qq[o.a] = q[o.b] /\ qq[o.b] = q[o.a] /\ Others(q, qq, {o.a, o.b})
      [] o.op = "foreach" -> LET c == Cut(q[o.l], o.stop) IN
                               /\ ev = c.w /\ ret = c.ret
                               /\ IF o.er THEN qq[o.l] = SubSeq(q[o.l], Len(c.w) + 1, Len(q[o.l])) /\ Others(q, qq, {o.l}) ELSE qq = q
      [] o.op = "clear"  -> /\ NoDup(ev) /\ SeqSet(ev) = SeqSet(q[o.l])
                            /\ qq[o.l] = <<>> /\ Others(q, qq, {o.l})
      [] o.op = "peek"   -> /\ qq = q
                            /\ ret = <<IF q[o.l] = <<>> THEN 0 ELSE Head(q[o.l]),
                                       IF q[o.l] = <<>> THEN 0 ELSE q[o.l][Len(q[o.l])], Len(q[o.l])>>

Free(s) == Nodes \ AllMembers(s)
OpSet(s, probes) ==
    LET q == Seqs(s) IN
    {[op |-> "pushf", l |-> l, e |-> e] : l \in Lists, e \in Free(s)}
    \cup {[op |-> "pushb", l |-> l, e |-> e] : l \in Lists, e \in Free(s)}
    \cup {[op |-> "popf", l |-> l] : l \in Lists}
    \cup UNION {{[op |-> "insert", l |-> l, pe |-> pe, e |-> e] : pe \in SeqSet(q[l]), e \in Free(s)} : l \in Lists}
    \cup UNION {{[op |-> "erasea", l |-> l, pe |-> q[l][i]] : i \in 1..(Len(q[l]) - 1)} : l \in Lists}
    \cup {[op |-> "reverse", l |-> l] : l \in Lists} \cup {[op |-> "sort", l |-> l] : l \in Lists}
    \cup {[op |-> "concat", d |-> p[1], src |-> p[2]] : p \in {x \in Lists \X Lists : x[1] # x[2] /\ s.offk[x[1]] = s.offk[x[2]]}}   \* like-configured lists only
    \cup {[op |-> "swap", a |-> p[1], b |-> p[2]] : p \in {x \in Lists \X Lists : x[1] <= x[2]}}   \* a = b: swapped with itself
    \cup {[op |-> "clear", l |-> l] : l \in Lists}
    \cup (IF probes THEN
            UNION {{[op |-> "foreach", l |-> l, stop |-> st, er |-> e] : st \in 0..Len(q[l]), e \in BOOLEAN} : l \in Lists}
            \cup {[op |-> "peek", l |-> l] : l \in Lists}
          ELSE {})
=============================================================================
