----------------------------- MODULE TraceArrBig -----------------------------
(* C14 beyond TLC's 32-bit integers: cstl_array_at on views over a buffer of     *)
(* more than 2^31 one-byte elements.  All quantities are four 16-bit limbs,      *)
(* most significant first.  at(i) must abort iff i >= len, and otherwise return  *)
(* buffer + (off + i) (element size 1).                                          *)
EXTENDS Naturals, Sequences, TLC, Json, IOUtils
Recs == ndJsonDeserialize(IOEnv.TRACE)
RECURSIVE LimbLess(_, _, _)
LimbLess(a, b, k) == IF k > 4 THEN FALSE ELSE IF a[k] < b[k] THEN TRUE ELSE IF a[k] > b[k] THEN FALSE ELSE LimbLess(a, b, k + 1)
\* limb-wise addition with carry, least significant limb last
Add(a, b) ==
    LET s4 == a[4] + b[4]  c4 == s4 \div 65536
        s3 == a[3] + b[3] + c4  c3 == s3 \div 65536
        s2 == a[2] + b[2] + c3  c2 == s2 \div 65536
        s1 == a[1] + b[1] + c2
    IN <<s1 % 65536, s2 % 65536, s3 % 65536, s4 % 65536>>
AtOK(rec) ==
    IF LimbLess(rec.i, rec.len, 1)
    THEN rec.out = "ok" /\ rec.ret = Add(rec.off, rec.i) /\ LimbLess(rec.ret, rec.nm, 1)
    ELSE rec.out = "abort"
VARIABLE i
TInit == i = 1
TNext == i < Len(Recs) /\ i' = i + 1
         /\ (IF AtOK(Recs[i + 1]) THEN TRUE ELSE PrintT(<<"L2FAIL", "C14", Recs[i + 1].id>>))
TSpec == TInit /\ [][TNext]_i
Done == i = Len(Recs) => PrintT(<<"TRACE-END", i>>)
=============================================================================
