------------------------------ MODULE TraceTree ------------------------------
(***************************************************************************)
(* Trace validation for the tree driver.  Every NDJSON record is one       *)
(* transition executed by the real bintree.c / rbtree.c.                   *)
(*   L1 (StepOK)     : the concrete model maps pre to exactly post,        *)
(*                     same return value and callback sequence.            *)
(*   L2 (ContractOK) : what C01 / C02 / C15 state, nothing more.           *)
(* Failures are printed as  <<"L2FAIL"|"L1DRIFT", record id>>  and decided *)
(* by bin/check; the trace machine itself is just a counter.               *)
(***************************************************************************)
EXTENDS TreeOps, Json, IOUtils
CONSTANT Level        \* 1: strict only, 2: contract only
Recs == ndJsonDeserialize(IOEnv.TRACE)

ToSt(j) == [root |-> j.root, p |-> j.p, l |-> j.l, r |-> j.r, c |-> j.c, size |-> j.size]
SameSt(j, s) == ~j.bad /\ ToSt(j) = Canon(s)
\* cfg: the configuration (node member, comparison function, private pointer) of the tree object that holds the
\* elements; the second tree object is configured differently, and a swap moves configuration and contents together
Aux(j) == <<j.cur, j.osize, j.oroot, j.cfg>>

StepOK(rec) ==
    IF rec.out # "ok" \/ rec.pre.bad THEN FALSE ELSE
    LET pre == ToSt(rec.pre) IN
    CASE rec.op = "ins"  -> SameSt(rec.post, InsertOp(pre, rec.n, rec.h)) /\ Aux(rec.pre) = Aux(rec.post)
      [] rec.op = "era"  -> LET e == EraseOp(pre, rec.k) IN
                              SameSt(rec.post, e.s) /\ e.ret = rec.ret /\ Aux(rec.pre) = Aux(rec.post)
      [] rec.op = "find" -> LET f == Find(pre, rec.k) IN
                              rec.post = rec.pre /\ f.f = rec.ret /\ (rec.nopar \/ f.par = rec.par)
      [] rec.op = "foreach" -> LET f == ForeachOp(pre, rec.rev, rec.stop) IN
                              rec.post = rec.pre /\ f.ev = rec.ev /\ f.ret = rec.ret
      [] rec.op = "clear" -> LET c == ClearOp(pre) IN
                              SameSt(rec.post, c.s) /\ c.ev = rec.ev /\ Aux(rec.pre) = Aux(rec.post)
      [] rec.op = "height" -> LET h == HeightOp(pre) IN
                              rec.post = rec.pre /\ h.min = rec.min /\ h.max = rec.max
      [] rec.op = "swap" -> ToSt(rec.post) = pre /\ rec.post.cur = 1 - rec.pre.cur
                              /\ rec.post.osize = 0 /\ rec.post.oroot = 0 /\ rec.post.cfg = rec.pre.cfg /\ rec.pre.cfg \in {1, 2}
      [] OTHER -> FALSE

\* elements that own a three-element tree which their clear callback walks, clears and rebuilds: every nested walk
\* sees the three, every nested clear hands over exactly the three, and the outer clear is not disturbed
NestedClearOK(rec) == (rec.nest /\ Len(rec.ev) > 0) => (rec.nw = <<3, 3, 1>> /\ rec.nin = 3 * Len(rec.ev))
\* C01 (+ C15 for clear): contents, order, return values
C01OK(rec) ==
    /\ rec.out = "ok"
    /\ ~rec.post.bad
    /\ LET pre == ToSt(rec.pre)  post == ToSt(rec.post)
           Mpre == Members(pre)  Mpost == Members(post) IN
       /\ StructOK(post)
       /\ rec.post.osize = 0 /\ rec.post.oroot = 0
       /\ CASE rec.op = "ins"  -> InsertContract(Mpre, Mpost, rec.n)
            [] rec.op = "era"  -> EraseContract(Mpre, Mpost, rec.k, rec.ret)
            [] rec.op = "find" -> /\ Mpost = Mpre /\ FindContract(Mpre, rec.k, rec.ret)
                                  \* the parent reported for a hinted insert: the found element's own parent, or the
                                  \* node the search ended at (where the element would be attached)
                                  /\ rec.nopar \/ rec.par = (IF rec.ret # 0 THEN pre.p[rec.ret] ELSE Find(pre, rec.k).par)
            [] rec.op = "foreach" -> /\ Mpost = Mpre /\ ForeachContract(Mpre, rec.rev, rec.stop, rec.ev, rec.ret)
                                     \* a visit function that walks the tree itself sees all of it, in order, every time
                                     /\ (rec.nest /\ Len(rec.ev) > 0) => rec.nw = <<Cardinality(Mpre), Cardinality(Mpre), 1>>
            [] rec.op = "clear" -> ClearContract(Mpre, rec.ev) /\ post.root = 0 /\ post.size = 0 /\ NestedClearOK(rec)
            [] rec.op = "height" -> Mpost = Mpre
            [] rec.op = "swap" -> Mpost = Mpre
            [] OTHER -> FALSE
\* C02: red-black rules and height bound in every post-state; reported height
C02OK(rec) ==
    /\ rec.out = "ok"
    /\ ~rec.post.bad
    /\ LET post == ToSt(rec.post) IN
       /\ StructOK(post)
       /\ (RB => RbOK(post))
       /\ rec.op = "height" => HeightContract(post, rec.min, rec.max)
ContractOK(rec) == C01OK(rec) /\ C02OK(rec)
\* C15: clear hands over each element exactly once, touches none afterwards (the
\* callback scribbles over the element's links), leaves a freshly initialised tree
C15OK(rec) ==
    rec.op = "clear" =>
       /\ rec.out = "ok" /\ ~rec.post.bad
       /\ ClearContract(Members(ToSt(rec.pre)), rec.ev) /\ NestedClearOK(rec)
       /\ ToSt(rec.post) = Empty

ModelOps(rec) == LET M == Members(ToSt(rec.pre)) IN
    {[op |-> "ins", n |-> n, h |-> h] : n \in Nodes \ M, h \in BOOLEAN}
    \cup {[op |-> "era", k |-> Key[n], alias |-> FALSE] : n \in Nodes}
    \cup {[op |-> "clear", poison |-> TRUE]}
\* In a closure the records of one state are contiguous (field g on the first of them = how many).  Every transition
\* the L0 machine can take from that state (ModelOps) must be among the operations the driver applied to the real
\* code there (the driver applies read-only probes on top).  Recs[1] is the trace header (the scope).
Applied(k, o) == \E j \in k..(k + Recs[k].g - 1) : Recs[j].op = o.op /\ \A f \in DOMAIN o : Recs[j][f] = o[f]
OpsOK(k) == LET rec == Recs[k] IN rec.pre.bad \/ \A o \in ModelOps(rec) : Applied(k, o)
VARIABLE i
Judge(rec) ==
    /\ (IF Level # 2 \/ C01OK(rec) THEN TRUE ELSE PrintT(<<"L2FAIL", "C01", rec.id>>))
    /\ (IF Level # 2 \/ C02OK(rec) THEN TRUE ELSE PrintT(<<"L2FAIL", "C02", rec.id>>))
    /\ (IF Level # 2 \/ C15OK(rec) THEN TRUE ELSE PrintT(<<"L2FAIL", "C15", rec.id>>))
    /\ (IF Level # 1 \/ StepOK(rec) THEN TRUE ELSE PrintT(<<"L1DRIFT", "tree", rec.id>>))
TInit == i = 1
TNext == i < Len(Recs) /\ i' = i + 1 /\ Judge(Recs[i + 1])
         /\ (IF Level # 1 \/ Recs[i + 1].g = 0 \/ OpsOK(i + 1) THEN TRUE ELSE PrintT(<<"OPSDIFF", "tree", Recs[i + 1].id>>))
TSpec == TInit /\ [][TNext]_i
Done == i = Len(Recs) => PrintT(<<"TRACE-END", i>>)
=============================================================================
