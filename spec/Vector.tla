------------------------------- MODULE Vector -------------------------------
(***************************************************************************)
(* L0 for src/vector.c: every operation with every size term (small values *)
(* 0..MaxN, SIZE_MAX, SIZE_MAX-1, floor(SIZE_MAX/Esz)-1..+1) and every     *)
(* allocator outcome in every reachable state; the C09 contract is         *)
(* recorded per step in `ok`.                                              *)
(***************************************************************************)
EXTENDS VecOps
CONSTANT MaxN
VARIABLES st, ok
vars == <<st, ok>>
Terms == {[k |-> "n", n |-> x] : x \in 0..MaxN} \cup {[k |-> "max", n |-> x] : x \in 0..1}
         \cup {[k |-> "maxdiv", n |-> x] : x \in (IF Esz > 1 THEN {-1, 0, 1} ELSE {-1, 0})}
         \cup {[k |-> "pow", n |-> e] : e \in 61..63}
Init == st = Fresh /\ ok = TRUE
\* an aborting step ends the process: stuttering here, judged all the same
Commit(m, c) == /\ st' = IF m.ab THEN st ELSE m.s
                /\ ok' = (c /\ (m.ab \/ (StorageOK(m.s) /\ KeepOK(st, m.s) /\ XtorOK(st, m.s, m.ev))))
DoReserve(t, a) == LET m == ReserveOp(st, t, a) IN
                   Commit(m, ~m.ab /\ m.s.count = st.count /\ m.s.tags = st.tags
                             /\ (~Small(t) => m.s = st)                     \* unsatisfiable growth: quiet no-op
                             /\ (Small(t) /\ a => m.s.cap >= t.n))
DoResize(t, a) == LET m == ResizeOp(st, t, a) IN
                  Commit(m, IF Small(t) /\ (a \/ t.n <= st.cap) THEN ~m.ab /\ m.s.count = t.n
                            ELSE m.ab)                                       \* unsatisfiable growth aborts
DoShrink(a) == LET m == ShrinkOp(st, a) IN Commit(m, ~m.ab /\ m.s.count = st.count /\ (a => m.s.cap = st.count))
DoClear == LET m == ClearOp(st) IN Commit(m, ~m.ab /\ m.s = Fresh)
DoSort == /\ st' = SortOp(st) /\ ok' = (IsPerm(st'.tags, st.tags) /\ Sorted(st'.tags) /\ StorageOK(st'))
DoReverse == /\ st' = ReverseOp(st) /\ ok' = (st'.tags = Rev(st.tags) /\ StorageOK(st'))
Next == \/ \E t \in Terms, a \in BOOLEAN : DoReserve(t, a) \/ DoResize(t, a)
        \/ \E a \in BOOLEAN : DoShrink(a)
        \/ DoClear \/ DoSort \/ DoReverse
Spec == Init /\ [][Next]_vars
InvOK == ok
InvStorage == StorageOK(st)
InvAt == \A t \in Terms : AtOp(st, t).ab <=> ~(Small(t) /\ t.n < st.count)
=============================================================================
