------------------------------ MODULE DListOps ------------------------------
(***************************************************************************)
(* Pointer-level model of src/dlist.c and the contract of C12 (and the     *)
(* dlist part of C15).  NL list objects share one pool of N nodes.         *)
(*                                                                         *)
(* A pointer is a node id 1..N or -j, the sentinel (`h`) of list j.        *)
(* State: hn, hp, size per list; nx, pv per node.  Links of nodes that are *)
(* in no list are garbage in the code and 0 in canonical form.             *)
(* Every function is transcribed statement by statement (reverse's mirror  *)
(* swap loop and adjacent-pair path, swap's re-anchoring, concat, clear);  *)
(* sort is modelled on the sequence (split at size/2, recurse, merge with  *)
(* <=) and its result written back as links, because its scratch lists     *)
(* live on the C stack.                                                    *)
(***************************************************************************)
EXTENDS Naturals, Integers, Sequences, FiniteSets, TLC

CONSTANTS N, NL, Val
Nodes == 1..N
Lists == 1..NL

Init0 == [hn |-> [l \in Lists |-> -l], hp |-> [l \in Lists |-> -l], size |-> [l \in Lists |-> 0],
          nx |-> [n \in Nodes |-> 0], pv |-> [n \in Nodes |-> 0],
          \* which link member of the elements a list object is configured with (its node offset): list objects
          \* need not agree, and whatever moves contents between two objects has to move the configuration too
          offk |-> [l \in Lists |-> IF l % 2 = 1 THEN 1 ELSE 2]]

Nx(s, x) == IF x > 0 THEN s.nx[x] ELSE s.hn[-x]
Pv(s, x) == IF x > 0 THEN s.pv[x] ELSE s.hp[-x]
SetNx(s, x, v) == IF x > 0 THEN [s EXCEPT !.nx[x] = v] ELSE [s EXCEPT !.hn[-x] = v]
SetPv(s, x, v) == IF x > 0 THEN [s EXCEPT !.pv[x] = v] ELSE [s EXCEPT !.hp[-x] = v]

(* __cstl_dlist_insert(l, p, n) *)
Ins(s, l, p, n) ==
    LET s1 == SetNx(s, n, Nx(s, p))
        s2 == SetPv(s1, n, p)
        s3 == SetPv(s2, Nx(s2, n), n)
        s4 == SetNx(s3, p, n)
    IN [s4 EXCEPT !.size[l] = @ + 1]
(* __cstl_dlist_erase(l, n) *)
Del(s, l, n) ==
    LET s1 == SetPv(s, Nx(s, n), Pv(s, n))
        s2 == SetNx(s1, Pv(s1, n), Nx(s1, n))
    IN [s2 EXCEPT !.size[l] = @ - 1]

PushFront(s, l, e) == Ins(s, l, -l, e)
PushBack(s, l, e) == Ins(s, l, s.hp[l], e)
InsertAfter(s, l, pe, e) == Ins(s, l, pe, e)
Erase(s, l, e) == Del(s, l, e)
PopFront(s, l) == IF s.size[l] > 0 THEN [s |-> Del(s, l, s.hn[l]), ret |-> s.hn[l]] ELSE [s |-> s, ret |-> 0]
PopBack(s, l) == IF s.size[l] > 0 THEN [s |-> Del(s, l, s.hp[l]), ret |-> s.hp[l]] ELSE [s |-> s, ret |-> 0]
Front(s, l) == IF s.size[l] > 0 THEN s.hn[l] ELSE 0
Back(s, l) == IF s.size[l] > 0 THEN s.hp[l] ELSE 0

(* cstl_dlist_reverse *)
SwapNodes(s, i, j) ==   \* cstl_swap(i, j, &t, sizeof(t)) on two node structs (or sentinels)
    LET in == Nx(s, i)  ip == Pv(s, i)  jn == Nx(s, j)  jp == Pv(s, j)
    IN SetPv(SetNx(SetPv(SetNx(s, i, jn), i, jp), j, in), j, ip)
RECURSIVE RevLoop(_, _, _, _)
RevLoop(s, i, j, fuel) ==
    IF fuel = 0 \/ ~(i # j /\ Nx(s, i) # j) THEN [s |-> s, i |-> i, j |-> j]
    ELSE LET s1 == SetNx(s, Pv(s, i), j)
             s2 == SetPv(s1, Nx(s1, i), j)
             s3 == SetPv(s2, Nx(s2, j), i)
             s4 == SetNx(s3, Pv(s3, j), i)
             s5 == SwapNodes(s4, i, j)
             k  == Pv(s5, i)
         IN RevLoop(s5, Nx(s5, j), k, fuel - 1)
Reverse(s, l) ==
    LET r == RevLoop(s, s.hn[l], s.hp[l], N + 1)
        i == r.i  j == r.j  t == r.s
    IN IF Nx(t, i) = j
       THEN LET t1 == SetNx(t, Pv(t, i), j)
                t2 == SetPv(t1, Nx(t1, j), i)
                t3 == SetNx(t2, i, Nx(t2, j))
                t4 == SetNx(t3, j, i)
                t5 == SetPv(t4, j, Pv(t4, i))
            IN SetPv(t5, i, j)
       ELSE t

(* cstl_dlist_concat(d, s) *)
Concat(s, d, src) ==
    IF d # src /\ s.size[src] > 0
    THEN LET s1 == SetPv(s, s.hn[src], s.hp[d])
             s2 == SetNx(s1, s1.hp[src], -d)
             s3 == SetNx(s2, s2.hp[d], s2.hn[src])
             s4 == [s3 EXCEPT !.hp[d] = s3.hp[src]]
             s5 == [s4 EXCEPT !.size[d] = @ + s4.size[src]]
         IN [s5 EXCEPT !.hn[src] = -src, !.hp[src] = -src, !.size[src] = 0]
    ELSE s

(* cstl_dlist_swap(a, b), a # b *)
SwapFix(s, l) == IF s.size[l] = 0 THEN [s EXCEPT !.hn[l] = -l, !.hp[l] = -l]
                 ELSE SetNx(SetPv(s, s.hn[l], -l), s.hp[l], -l)
Swap(s, a, b) ==
    LET s1 == [s EXCEPT !.hn[a] = s.hn[b], !.hn[b] = s.hn[a], !.hp[a] = s.hp[b], !.hp[b] = s.hp[a],
                        !.size[a] = s.size[b], !.size[b] = s.size[a],
                        !.offk[a] = s.offk[b], !.offk[b] = s.offk[a]]
    IN SwapFix(SwapFix(s1, a), b)

(* ---- abstraction: walks over the links, with fuel --------------------- *)
RECURSIVE WalkF(_, _, _, _)
WalkF(s, l, x, fuel) == IF x = -l THEN <<>>
                        ELSE IF fuel = 0 \/ x <= 0 THEN <<-999>>
                        ELSE <<x>> \o WalkF(s, l, s.nx[x], fuel - 1)
RECURSIVE WalkB(_, _, _, _)
WalkB(s, l, x, fuel) == IF x = -l THEN <<>>
                        ELSE IF fuel = 0 \/ x <= 0 THEN <<-999>>
                        ELSE <<x>> \o WalkB(s, l, s.pv[x], fuel - 1)
Fwd(s, l) == WalkF(s, l, s.hn[l], N + 1)
Bwd(s, l) == WalkB(s, l, s.hp[l], N + 1)
Rev(q) == [i \in 1..Len(q) |-> q[Len(q) + 1 - i]]
SeqSet(q) == {q[i] : i \in 1..Len(q)}
NoDup(q) == \A i, j \in 1..Len(q) : i # j => q[i] # q[j]
Seqs(s) == [l \in Lists |-> Fwd(s, l)]
AllMembers(s) == UNION {SeqSet(Fwd(s, l)) : l \in Lists}

(* cstl_dlist_clear: erase the front until empty, handing each to the callback *)
Clear(s, l) == LET q == Fwd(s, l)
               IN [s |-> [s EXCEPT !.hn[l] = -l, !.hp[l] = -l, !.size[l] = 0], ev |-> q]

(* cstl_dlist_foreach: the successor is read before the visit, so the callback *)
(* may erase the visited element (er)                                           *)
\* what the driver's visit function returns at its stop-th call: any non-zero value must stop the walk and
\* come back unchanged, so the values vary in sign and size (engine.h e_stopval)
StopVal(k) == CASE k % 3 = 1 -> 100 + k [] k % 3 = 2 -> 0 - (100 + k) [] OTHER -> IF k % 2 = 1 THEN 1 ELSE 0 - 1
Cut(w, stop) == IF stop > 0 /\ stop <= Len(w) THEN [w |-> SubSeq(w, 1, stop), ret |-> StopVal(stop)]
                ELSE [w |-> w, ret |-> 0]
RECURSIVE DelAll(_, _, _)
DelAll(s, l, w) == IF w = <<>> THEN s ELSE DelAll(Del(s, l, Head(w)), l, Tail(w))
Foreach(s, l, rev, stop, er) ==
    LET c == Cut(IF rev THEN Bwd(s, l) ELSE Fwd(s, l), stop)
    IN [s |-> IF er THEN DelAll(s, l, c.w) ELSE s, ev |-> c.w, ret |-> c.ret]
Find(s, l, v, rev) ==
    LET w == IF rev THEN Bwd(s, l) ELSE Fwd(s, l)
        m == SelectSeq(w, LAMBDA x : Val[x] = v)
    IN IF m = <<>> THEN 0 ELSE Head(m)

(* cstl_dlist_sort on the sequence: split at size/2, sort halves, merge taking
   from the first half on <= (stable) *)
RECURSIVE Merge(_, _)
Merge(a, b) == IF a = <<>> THEN b ELSE IF b = <<>> THEN a
               ELSE IF Val[Head(a)] <= Val[Head(b)] THEN <<Head(a)>> \o Merge(Tail(a), b)
               ELSE <<Head(b)>> \o Merge(a, Tail(b))
RECURSIVE MSort(_)
MSort(q) == IF Len(q) <= 1 THEN q
            ELSE LET h == Len(q) \div 2
                 IN Merge(MSort(SubSeq(q, 1, h)), MSort(SubSeq(q, h + 1, Len(q))))
\* write a sequence back as the links of list l
Build(s, l, q) ==
    LET n == Len(q) IN
    IF n = 0 THEN [s EXCEPT !.hn[l] = -l, !.hp[l] = -l, !.size[l] = 0]
    ELSE [s EXCEPT !.hn[l] = q[1], !.hp[l] = q[n], !.size[l] = n,
                   !.nx = [x \in Nodes |-> IF \E i \in 1..n : q[i] = x
                                           THEN LET i == CHOOSE i \in 1..n : q[i] = x IN IF i = n THEN -l ELSE q[i + 1]
                                           ELSE s.nx[x]],
                   !.pv = [x \in Nodes |-> IF \E i \in 1..n : q[i] = x
                                           THEN LET i == CHOOSE i \in 1..n : q[i] = x IN IF i = 1 THEN -l ELSE q[i - 1]
                                           ELSE s.pv[x]]]
Sort(s, l) == Build(s, l, MSort(Fwd(s, l)))

\* canonical form: links of nodes in no list are zero
Canon(s) == LET M == AllMembers(s) IN
            [s EXCEPT !.nx = [x \in Nodes |-> IF x \in M THEN s.nx[x] ELSE 0],
                      !.pv = [x \in Nodes |-> IF x \in M THEN s.pv[x] ELSE 0]]

(***************************************************************************)
(* Contract (C12): everything is stated on the sequences read off the      *)
(* links in both directions.                                               *)
(***************************************************************************)
WF(s) == /\ \A l \in Lists : LET f == Fwd(s, l) IN
              /\ -999 \notin SeqSet(f) /\ NoDup(f)
              /\ Bwd(s, l) = Rev(f)
              /\ s.size[l] = Len(f)
         /\ \A a, b \in Lists : a # b => SeqSet(Fwd(s, a)) \cap SeqSet(Fwd(s, b)) = {}
Others(q, qq, ls) == \A l \in Lists \ ls : qq[l] = q[l]
Remove(q, e) == SelectSeq(q, LAMBDA x : x # e)
RemoveAll(q, S) == SelectSeq(q, LAMBDA x : x \notin S)
InsAfter(q, pe, e) == LET i == CHOOSE i \in 1..Len(q) : q[i] = pe
                      IN SubSeq(q, 1, i) \o <<e>> \o SubSeq(q, i + 1, Len(q))
IsSortedPermOf(r, q) == /\ Len(r) = Len(q) /\ SeqSet(r) = SeqSet(q) /\ NoDup(r)
                        /\ \A i \in 1..(Len(r) - 1) : Val[r[i]] <= Val[r[i + 1]]
FirstMatch(w, v) == LET m == SelectSeq(w, LAMBDA x : Val[x] = v) IN IF m = <<>> THEN 0 ELSE Head(m)

(***************************************************************************)
(* One entry point per public function, keyed by the same record shape the *)
(* driver logs: o.op and its arguments.  Apply gives the concrete model's  *)
(* result [s, ret, ev]; Contract states what C12 demands of an observed    *)
(* result (ret, ev) and of the sequences before (q) and after (qq).        *)
(***************************************************************************)
R3(s, ret, ev) == [s |-> s, ret |-> ret, ev |-> ev]
Apply(s, o) ==
    CASE o.op = "pushf"  -> R3(PushFront(s, o.l, o.e), 0, <<>>)
      [] o.op = "pushb"  -> R3(PushBack(s, o.l, o.e), 0, <<>>)
      [] o.op = "popf"   -> LET r == PopFront(s, o.l) IN R3(r.s, r.ret, <<>>)
      [] o.op = "popb"   -> LET r == PopBack(s, o.l) IN R3(r.s, r.ret, <<>>)
      [] o.op = "insert" -> R3(InsertAfter(s, o.l, o.pe, o.e), 0, <<>>)
      [] o.op = "erase"  -> R3(Erase(s, o.l, o.e), 0, <<>>)
      [] o.op = "reverse" -> R3(Reverse(s, o.l), 0, <<>>)
      [] o.op = "sort"   -> R3(Sort(s, o.l), 0, <<>>)
      [] o.op = "concat" -> R3(Concat(s, o.d, o.src), 0, <<>>)
      [] o.op = "swap"   -> R3(Swap(s, o.a, o.b), 0, <<>>)
      [] o.op = "find"   -> R3(s, Find(s, o.l, o.v, o.rev), <<>>)
      [] o.op = "foreach" -> LET r == Foreach(s, o.l, o.rev, o.stop, o.er) IN R3(r.s, r.ret, r.ev)
      [] o.op = "clear"  -> LET r == Clear(s, o.l) IN R3(r.s, 0, r.ev)
      [] o.op = "peek"   -> R3(s, <<Front(s, o.l), Back(s, o.l), s.size[o.l]>>, <<>>)

Contract(o, q, qq, ret, ev) ==
    CASE o.op = "pushf"  -> qq[o.l] = <<o.e>> \o q[o.l] /\ Others(q, qq, {o.l})
      [] o.op = "pushb"  -> qq[o.l] = Append(q[o.l], o.e) /\ Others(q, qq, {o.l})
      [] o.op = "popf"   -> /\ Others(q, qq, {o.l})
                            /\ IF q[o.l] = <<>> THEN ret = 0 /\ qq[o.l] = <<>>
                               ELSE ret = Head(q[o.l]) /\ qq[o.l] = Tail(q[o.l])
      [] o.op = "popb"   -> /\ Others(q, qq, {o.l})
                            /\ IF q[o.l] = <<>> THEN ret = 0 /\ qq[o.l] = <<>>
                               ELSE ret = q[o.l][Len(q[o.l])] /\ qq[o.l] = SubSeq(q[o.l], 1, Len(q[o.l]) - 1)
      [] o.op = "insert" -> qq[o.l] = InsAfter(q[o.l], o.pe, o.e) /\ Others(q, qq, {o.l})
      [] o.op = "erase"  -> qq[o.l] = Remove(q[o.l], o.e) /\ Others(q, qq, {o.l})
      [] o.op = "reverse" -> qq[o.l] = Rev(q[o.l]) /\ Others(q, qq, {o.l})
      [] o.op = "sort"   -> IsSortedPermOf(qq[o.l], q[o.l]) /\ Others(q, qq, {o.l})
      [] o.op = "concat" -> qq[o.d] = q[o.d] \o q[o.src] /\ qq[o.src] = <<>> /\ Others(q, qq, {o.d, o.src})
      [] o.op = "swap"   -> qq[o.a] = q[o.b] /\ qq[o.b] = q[o.a] /\ Others(q, qq, {o.a, o.b})
      [] o.op = "find"   -> qq = q /\ ret = FirstMatch(IF o.rev THEN Rev(q[o.l]) ELSE q[o.l], o.v)
      [] o.op = "foreach" ->
            LET w == IF o.rev THEN Rev(q[o.l]) ELSE q[o.l]
                c == Cut(w, o.stop) IN
            /\ ev = c.w /\ ret = c.ret
            /\ qq[o.l] = (IF o.er THEN RemoveAll(q[o.l], SeqSet(c.w)) ELSE q[o.l])
            /\ Others(q, qq, {o.l})
      [] o.op = "clear"  -> /\ NoDup(ev) /\ SeqSet(ev) = SeqSet(q[o.l])
                            /\ qq[o.l] = <<>> /\ Others(q, qq, {o.l})
      [] o.op = "peek"   -> /\ qq = q
                            /\ ret = <<IF q[o.l] = <<>> THEN 0 ELSE Head(q[o.l]),
                                       IF q[o.l] = <<>> THEN 0 ELSE q[o.l][Len(q[o.l])], Len(q[o.l])>>

\* the operations enabled in a state (the driver enumerates the same set)
Free(s) == Nodes \ AllMembers(s)
Vals == {Val[n] : n \in Nodes}
OpSet(s, probes) ==
    LET q == Seqs(s) IN
    {[op |-> "pushf", l |-> l, e |-> e] : l \in Lists, e \in Free(s)}
    \cup {[op |-> "pushb", l |-> l, e |-> e] : l \in Lists, e \in Free(s)}
    \cup {[op |-> "popf", l |-> l] : l \in Lists} \cup {[op |-> "popb", l |-> l] : l \in Lists}
    \cup UNION {{[op |-> "insert", l |-> l, pe |-> pe, e |-> e] : pe \in SeqSet(q[l]), e \in Free(s)} : l \in Lists}
    \cup UNION {{[op |-> "erase", l |-> l, e |-> e] : e \in SeqSet(q[l])} : l \in Lists}
    \cup {[op |-> "reverse", l |-> l] : l \in Lists} \cup {[op |-> "sort", l |-> l] : l \in Lists}
    \cup {[op |-> "concat", d |-> p[1], src |-> p[2]] : p \in {x \in Lists \X Lists : x[1] # x[2] /\ s.offk[x[1]] = s.offk[x[2]]}}   \* like-configured lists only
    \cup {[op |-> "swap", a |-> p[1], b |-> p[2]] : p \in {x \in Lists \X Lists : x[1] <= x[2]}}   \* a = b: swapped with itself
    \cup {[op |-> "clear", l |-> l] : l \in Lists}
    \* nest: the visit function makes read-only calls on the list being walked (a lookup, a complete nested walk)
    \cup UNION {{[op |-> "foreach", l |-> l, rev |-> rv, stop |-> st, er |-> TRUE, nest |-> FALSE] :
                    rv \in BOOLEAN, st \in 0..Len(q[l])} : l \in Lists}
    \cup (IF probes THEN
            UNION {{[op |-> "foreach", l |-> l, rev |-> rv, stop |-> st, er |-> FALSE, nest |-> ne] :
                      rv \in BOOLEAN, st \in 0..Len(q[l]), ne \in BOOLEAN} : l \in Lists}
            \* key: the object handed to find is a separate one (0) or a member of the list itself - the comparison
            \* function relates a field of the key object to the elements, it need not be reflexive
            \cup UNION {{[op |-> "find", l |-> l, v |-> v, rev |-> rv, key |-> k] :
                            v \in Vals \cup {0}, rv \in BOOLEAN, k \in {0} \cup SeqSet(q[l])} : l \in Lists}
            \cup {[op |-> "peek", l |-> l] : l \in Lists}
          ELSE {})
=============================================================================
