------------------------------ MODULE TraceHeap ------------------------------
(* Trace validation for the heap driver (real src/heap.c, src/common.c).      *)
(*   L1: HeapOps maps pre to exactly the logged post links / return value.    *)
(*   L2: C07 (max element, exactly it removed, size, completeness, order)     *)
(*       and cstl_fls against its contract on 64-bit probes (16-bit limbs).   *)
EXTENDS HeapOps, Json, IOUtils
CONSTANT Level
Recs == ndJsonDeserialize(IOEnv.TRACE)
ToSt(j) == [root |-> j.root, p |-> j.p, l |-> j.l, r |-> j.r, size |-> j.size]
SameSt(j, s) == ~j.bad /\ ToSt(j) = Canon(s)
\* cfg: configuration (node member, comparison function, private pointer) of the heap object holding the elements
Aux(j) == <<j.cur, j.osize, j.oroot, j.cfg>>

\* highest set bit of a 64-bit value given as four 16-bit limbs, MSB first; -1 for 0
FlsLimb(v) == CHOOSE i \in 0..15 : 2 ^ i <= v /\ v < 2 ^ (i + 1)
FlsLimbs(x) == IF x[1] # 0 THEN 48 + FlsLimb(x[1])
               ELSE IF x[2] # 0 THEN 32 + FlsLimb(x[2])
               ELSE IF x[3] # 0 THEN 16 + FlsLimb(x[3])
               ELSE IF x[4] # 0 THEN FlsLimb(x[4]) ELSE -1

StepOK(rec) ==
    IF rec.out # "ok" \/ rec.pre.bad THEN FALSE ELSE
    LET pre == ToSt(rec.pre) IN
    CASE rec.op = "push" -> SameSt(rec.post, Push(pre, rec.n)) /\ Aux(rec.pre) = Aux(rec.post)
      [] rec.op = "pop"  -> LET r == Pop(pre) IN SameSt(rec.post, r.s) /\ rec.ret = r.ret /\ Aux(rec.pre) = Aux(rec.post)
      [] rec.op = "get"  -> rec.post = rec.pre /\ rec.ret = Get(pre) /\ rec.size = pre.size
      [] rec.op = "clear" -> LET c == ClearOp(pre) IN SameSt(rec.post, c.s) /\ rec.ev = c.ev /\ Aux(rec.pre) = Aux(rec.post)
      [] rec.op = "swap" -> ToSt(rec.post) = pre /\ rec.post.cur = 1 - rec.pre.cur /\ rec.post.osize = 0 /\ rec.post.oroot = 0 /\ rec.post.cfg = rec.pre.cfg /\ rec.pre.cfg \in {1, 2}
      [] rec.op = "fls"  -> rec.post = rec.pre /\ rec.ret = FlsLimbs(rec.x)
      [] OTHER -> FALSE
C07OK(rec) ==
    /\ rec.out = "ok" /\ ~rec.post.bad
    /\ LET pre == ToSt(rec.pre)  post == ToSt(rec.post)
           Mpre == Members(pre)  Mpost == Members(post) IN
       /\ HeapOK(post)
       /\ rec.post.osize = 0 /\ rec.post.oroot = 0
       /\ CASE rec.op = "push" -> PushContract(Mpre, Mpost, rec.n)
            [] rec.op = "pop"  -> PopContract(Mpre, Mpost, rec.ret)
            [] rec.op = "get"  -> Mpost = Mpre /\ TopContract(Mpre, rec.ret) /\ rec.size = Cardinality(Mpre)
            [] rec.op = "clear" -> ClearContract(Mpre, rec.ev) /\ post.root = 0 /\ post.size = 0
            [] rec.op = "swap" -> Mpost = Mpre
            [] rec.op = "fls"  -> Mpost = Mpre /\ rec.ret = FlsLimbs(rec.x)
            [] OTHER -> FALSE
C15OK(rec) ==
    rec.op = "clear" =>
       /\ rec.out = "ok" /\ ~rec.post.bad
       /\ ClearContract(Members(ToSt(rec.pre)), rec.ev)
       /\ ToSt(rec.post) = Empty
ModelOps(rec) == LET M == Members(ToSt(rec.pre)) IN
    {[op |-> "push", n |-> n] : n \in Nodes \ M} \cup {[op |-> "pop"], [op |-> "clear"]}
\* In a closure the records of one state are contiguous (field g on the first of them = how many).  Every transition
\* the L0 machine can take from that state (ModelOps) must be among the operations the driver applied to the real
\* code there (the driver applies read-only probes on top).  Recs[1] is the trace header (the scope).
Applied(k, o) == \E j \in k..(k + Recs[k].g - 1) : Recs[j].op = o.op /\ \A f \in DOMAIN o : Recs[j][f] = o[f]
OpsOK(k) == LET rec == Recs[k] IN rec.pre.bad \/ \A o \in ModelOps(rec) : Applied(k, o)
VARIABLE i
Judge(rec) ==
    /\ (IF Level # 2 \/ C15OK(rec) THEN TRUE ELSE PrintT(<<"L2FAIL", "C15", rec.id>>))
    /\ (IF Level # 2 \/ C07OK(rec) THEN TRUE ELSE PrintT(<<"L2FAIL", "C07", rec.id>>))
    /\ (IF Level # 1 \/ StepOK(rec) THEN TRUE ELSE PrintT(<<"L1DRIFT", "heap", rec.id>>))
TInit == i = 1
TNext == i < Len(Recs) /\ i' = i + 1 /\ Judge(Recs[i + 1])
         /\ (IF Level # 1 \/ Recs[i + 1].g = 0 \/ OpsOK(i + 1) THEN TRUE ELSE PrintT(<<"OPSDIFF", "heap", Recs[i + 1].id>>))
TSpec == TInit /\ [][TNext]_i
Done == i = Len(Recs) => PrintT(<<"TRACE-END", i>>)
=============================================================================
