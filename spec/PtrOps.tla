------------------------------- MODULE PtrOps -------------------------------
(***************************************************************************)
(* Sequential model of src/memory.c / include/cstl/memory.h (guarded,      *)
(* unique, shared and weak pointers) and the contracts of C05 and C20.     *)
(*                                                                         *)
(* State:                                                                  *)
(*   sp[s], wp[w]   index into al of the bookkeeping block the shared /    *)
(*                  weak pointer object targets (0 = NULL)                 *)
(*   al             the live bookkeeping blocks, in canonical order (order *)
(*                  of first reference from S1..,W1..): [hard, soft, mem   *)
(*                  (managed memory still live), clr (clear callback set)] *)
(*   up[u]          unique pointer objects: [has, clr]                     *)
(* Events: <<"allocd">> <<"allocm">> <<"allocfail">> allocator requests,   *)
(*   <<"clr", a>> clear callback for the memory of block a, <<"freem", a>> *)
(*   <<"freed", a>> release of the memory / bookkeeping block (a = index   *)
(*   in the pre-state, NEWB for a block allocated by this operation),       *)
(*   <<"uclr", u>> <<"ufree", u>> for unique pointer u.                    *)
(* A machine m = [s, ev, ok]: ok = outcomes of the allocator calls still   *)
(* to come (sequence of booleans, TRUE beyond its end).                    *)
(***************************************************************************)
EXTENDS Naturals, Integers, Sequences, FiniteSets, TLC
CONSTANTS NS, NW, NU
SP == 1..NS
WP == 1..NW
UP == 1..NU
NEWB == 99

Fresh == [sp |-> [s \in SP |-> 0], wp |-> [w \in WP |-> 0], al |-> <<>>,
          up |-> [u \in UP |-> [has |-> FALSE, clr |-> FALSE]]]
Mk(s, ok) == [s |-> s, ev |-> <<>>, ok |-> ok]
Ev(m, e) == [m EXCEPT !.ev = Append(@, e)]
NextOK(m) == IF m.ok = <<>> THEN TRUE ELSE Head(m.ok)
PopOK(m) == IF m.ok = <<>> THEN m ELSE [m EXCEPT !.ok = Tail(@)]

\* a block index that stays stable while an operation runs: blocks are only
\* removed from al when the operation's result is canonicalised; a freed
\* bookkeeping block is marked by soft = 0
(* cstl_weak_ptr_reset on the target d of some object (the object's own field is cleared by the caller) *)
DropSoft(m, d) ==
    LET old == m.s.al[d].soft
        m1 == [m EXCEPT !.s.al[d].soft = old - 1]
    IN IF old = 1 THEN Ev(m1, <<"freed", d>>) ELSE m1
(* cstl_weak_ptr_reset(w): also what a re-entrant clear callback does to W1 *)
WResetRaw(m, w) == LET d == m.s.wp[w] IN
                   IF d = 0 THEN m ELSE DropSoft([m EXCEPT !.s.wp[w] = 0], d)
(* the hard-count half of cstl_shared_ptr_reset; the clear callback runs inside cstl_unique_ptr_reset, before
   the memory is freed, and may call back into the library (clr = 2: it resets weak pointer W1; clr = 3: it
   locks W1;
   clr = 4: it resets another shared pointer) *)
\* self: the shared pointer object this operation is re-targeting.  clr = 4: the callback resets shared pointer S[NS]
\* (unless that is the very object being re-targeted), which may take a second allocation down inside the first
\* one's callback.
RECURSIVE DropHard(_, _, _), SResetM(_, _)
DropHard(m, d, self) ==
    LET old == m.s.al[d].hard
        m1 == [m EXCEPT !.s.al[d].hard = old - 1]
    IN IF old = 1
       THEN LET m2 == IF m1.s.al[d].clr > 0 THEN Ev(m1, <<"clr", d>>) ELSE m1
                w1 == IF NW >= 1 THEN m1.s.wp[1] ELSE 0
                m3 == IF m1.s.al[d].clr = 2 /\ NW >= 1 THEN WResetRaw(m2, 1)
                      ELSE IF m1.s.al[d].clr = 3 /\ NW >= 1
                           \* clr = 3: the callback locks weak pointer W1 into a temporary and drops it again; the
                           \* lock finds an owner iff W1's block has one left (never the block being torn down)
                           THEN Ev(m2, <<"cblock", IF w1 # 0 /\ m1.s.al[w1].hard > 0 THEN 1 ELSE 0>>)
                      ELSE IF m1.s.al[d].clr = 4 /\ self # NS THEN SResetM(m2, NS)
                           ELSE m2
            IN [Ev(m3, <<"freem", d>>) EXCEPT !.s.al[d].mem = FALSE, !.s.al[d].clr = 0]
       ELSE m1
SResetM(m, s) == LET d == m.s.sp[s] IN
                 IF d = 0 THEN m ELSE DropSoft([DropHard(m, d, s) EXCEPT !.s.sp[s] = 0], d)
WResetM(m, w) == WResetRaw(m, w)

(* cstl_shared_ptr_alloc(sp, sz, clr): sz = 0 only resets *)
SAllocM(m0, s, withclr, zero) ==
    LET m == SResetM(m0, s) IN
    IF zero THEN m
    ELSE IF ~NextOK(m) THEN Ev(PopOK(m), <<"allocfail">>)
    ELSE LET m1 == Ev(PopOK(m), <<"allocd">>) IN
         IF ~NextOK(m1) THEN Ev(Ev(PopOK(m1), <<"allocfail">>), <<"freed", NEWB>>)
         ELSE LET m2 == Ev(PopOK(m1), <<"allocm">>)
                  blk == [hard |-> 1, soft |-> 1, mem |-> TRUE, clr |-> withclr]
              IN [m2 EXCEPT !.s.al = Append(@, blk), !.s.sp[s] = Len(m2.s.al) + 1]
ShareM(m0, e, n) ==
    LET m == SResetM(m0, n)
        d == m.s.sp[e]
    IN IF d = 0 THEN [m EXCEPT !.s.sp[n] = 0]
       ELSE [m EXCEPT !.s.sp[n] = d, !.s.al[d].hard = @ + 1, !.s.al[d].soft = @ + 1]
SSwapM(m, a, b) == [m EXCEPT !.s.sp[a] = m.s.sp[b], !.s.sp[b] = m.s.sp[a]]
WSwapM(m, a, b) == [m EXCEPT !.s.wp[a] = m.s.wp[b], !.s.wp[b] = m.s.wp[a]]
WFromM(m0, w, s) ==
    LET m == WResetM(m0, w)
        d == m.s.sp[s]
    IN IF d = 0 THEN [m EXCEPT !.s.wp[w] = 0]
       ELSE [m EXCEPT !.s.wp[w] = d, !.s.al[d].soft = @ + 1]
WLockM(m0, w, s) ==
    LET m == SResetM(m0, s)
        d == m.s.wp[w]
    IN IF d = 0 THEN [m EXCEPT !.s.sp[s] = 0]
       ELSE IF m.s.al[d].hard > 0 THEN [m EXCEPT !.s.sp[s] = d, !.s.al[d].hard = @ + 1, !.s.al[d].soft = @ + 1]
       ELSE [m EXCEPT !.s.sp[s] = 0]
SGet(s, x) == LET d == s.sp[x] IN IF d = 0 THEN 0 ELSE IF s.al[d].mem THEN d ELSE 0
SUnique(s, x) == LET d == s.sp[x] IN IF d = 0 THEN TRUE ELSE s.al[d].soft = 1

UResetM(m, u) ==
    LET m1 == IF m.s.up[u].clr THEN Ev(m, <<"uclr", u>>) ELSE m
        m2 == IF m.s.up[u].has THEN Ev(m1, <<"ufree", u>>) ELSE m1
    IN [m2 EXCEPT !.s.up[u] = [has |-> FALSE, clr |-> FALSE]]
UAllocM(m0, u, withclr, zero) ==
    LET m == UResetM(m0, u) IN
    IF zero THEN m
    ELSE IF ~NextOK(m) THEN Ev(PopOK(m), <<"allocfail">>)
    ELSE [Ev(PopOK(m), <<"allocu">>) EXCEPT !.s.up[u] = [has |-> TRUE, clr |-> withclr]]
\* release hands the memory (and the callback) to the caller; the driver then frees it
UReleaseM(m, u) == [(IF m.s.up[u].has THEN Ev(m, <<"ufree", u>>) ELSE m)
                       EXCEPT !.s.up[u] = [has |-> FALSE, clr |-> FALSE]]
USwapM(m, a, b) == [m EXCEPT !.s.up[a] = m.s.up[b], !.s.up[b] = m.s.up[a]]

(* canonical form: drop freed blocks, renumber by first reference from S1.., W1.. *)
Refs(s) == [i \in 1..(NS + NW) |-> IF i <= NS THEN s.sp[i] ELSE s.wp[i - NS]]
RECURSIVE Order(_, _, _)
Order(refs, i, acc) == IF i > Len(refs) THEN acc
                       ELSE IF refs[i] = 0 \/ \E j \in 1..Len(acc) : acc[j] = refs[i] THEN Order(refs, i + 1, acc)
                       ELSE Order(refs, i + 1, Append(acc, refs[i]))
Canon(s) ==
    LET ord == Order(Refs(s), 1, <<>>)
        ren(d) == IF d = 0 THEN 0 ELSE CHOOSE j \in 1..Len(ord) : ord[j] = d
    IN [sp |-> [x \in SP |-> ren(s.sp[x])], wp |-> [x \in WP |-> ren(s.wp[x])],
        al |-> [j \in 1..Len(ord) |-> s.al[ord[j]]], up |-> s.up]

R2(m, ret) == [m |-> m, ret |-> ret]
B(x) == IF x THEN 1 ELSE 0
Apply(s, o) ==
    LET m == Mk(s, IF "ok" \in DOMAIN o THEN o.ok ELSE <<>>) IN
    CASE o.op = "salloc"  -> R2(SAllocM(m, o.s, o.clr, o.zero), 0)
      [] o.op = "share"   -> R2(ShareM(m, o.e, o.n), 0)
      [] o.op = "sswap"   -> R2(SSwapM(m, o.a, o.b), 0)
      [] o.op = "sreset"  -> R2(SResetM(m, o.s), 0)
      [] o.op = "sget"    -> R2(m, SGet(s, o.s))
      [] o.op = "sunique" -> R2(m, B(SUnique(s, o.s)))
      [] o.op = "wfrom"   -> R2(WFromM(m, o.w, o.s), 0)
      [] o.op = "wlock"   -> R2(WLockM(m, o.w, o.s), 0)
      [] o.op = "wswap"   -> R2(WSwapM(m, o.a, o.b), 0)
      [] o.op = "wreset"  -> R2(WResetM(m, o.w), 0)
      [] o.op = "ualloc"  -> R2(UAllocM(m, o.u, o.clr, o.zero), 0)
      [] o.op = "urelease" -> R2(UReleaseM(m, o.u), <<B(s.up[o.u].has), B(s.up[o.u].clr)>>)
      [] o.op = "uswap"   -> R2(USwapM(m, o.a, o.b), 0)
      [] o.op = "ureset"  -> R2(UResetM(m, o.u), 0)
      [] o.op = "uget"    -> R2(m, B(s.up[o.u].has))

(***************************************************************************)
(* Contract (C05): an ownership relation read off the pointer objects.     *)
(***************************************************************************)
Owners(s, d) == {x \in SP : s.sp[x] = d}
Weaks(s, d) == {x \in WP : s.wp[x] = d}
\* the counters are functions of the pointer objects; memory lives iff owned
CountsOK(s) == \A d \in 1..Len(s.al) :
                  /\ s.al[d].hard = Cardinality(Owners(s, d))
                  /\ s.al[d].soft = Cardinality(Owners(s, d)) + Cardinality(Weaks(s, d))
                  /\ s.al[d].soft >= 1
                  /\ s.al[d].mem = (s.al[d].hard > 0)
EvOf(ev, kd) == SelectSeq(ev, LAMBDA e : e[1] = kd)
Targets(ev, kd) == LET q == EvOf(ev, kd) IN [i \in 1..Len(q) |-> q[i][2]]
SeqSet(q) == {q[i] : i \in 1..Len(q)}
NoDup(q) == \A i, j \in 1..Len(q) : i # j => q[i] # q[j]
Before(ev, a, b) == \A i, j \in 1..Len(ev) : (ev[i] = a /\ ev[j] = b) => i < j
\* Exactly-once, exactly-when: given the ownership before (pre, canonical) and the
\* pointer objects after as indexes into the PRE numbering (tsp, twp; NEWB for a
\* block created by the operation), the blocks whose last owner went away are
\* cleared (if they have a callback) then freed, once, and the blocks whose last
\* reference went away have their bookkeeping freed, once; nothing else is.
LifeOK(pre, tsp, twp, ev) ==
    LET D == 1..Len(pre.al)
        ownedAfter(d) == \E x \in SP : tsp[x] = d
        refdAfter(d) == ownedAfter(d) \/ \E x \in WP : twp[x] = d
        lostOwner == {d \in D : pre.al[d].mem /\ ~ownedAfter(d)}
        lostRef == {d \in D : ~refdAfter(d)}
    IN /\ NoDup(Targets(ev, "freem")) /\ NoDup(Targets(ev, "freed")) /\ NoDup(Targets(ev, "clr"))
       /\ SeqSet(Targets(ev, "freem")) \ {NEWB} = lostOwner
       /\ SeqSet(Targets(ev, "freed")) \ {NEWB} = lostRef
       /\ SeqSet(Targets(ev, "clr")) = {d \in lostOwner : pre.al[d].clr > 0}
       /\ \A d \in lostOwner : Before(ev, <<"clr", d>>, <<"freem", d>>) /\ Before(ev, <<"freem", d>>, <<"freed", d>>)

\* ---- the operations explored in every state (wf: allocations may be made to fail)
OKs2(wf) == IF wf THEN {<<TRUE, TRUE>>, <<FALSE, TRUE>>, <<TRUE, FALSE>>} ELSE {<<TRUE, TRUE>>}
OKs1(wf) == IF wf THEN {<<TRUE>>, <<FALSE>>} ELSE {<<TRUE>>}
OpSetF(wf) ==
    {[op |-> "salloc", s |-> s, clr |-> c, ok |-> k, zero |-> FALSE] : s \in SP, c \in (IF NW >= 1 THEN 0..3 ELSE 0..1) \cup (IF NS >= 2 THEN {4} ELSE {}), k \in OKs2(wf)}
    \cup {[op |-> "salloc", s |-> s, clr |-> 0, ok |-> <<TRUE, TRUE>>, zero |-> TRUE] : s \in SP}
    \cup {[op |-> "share", e |-> e, n |-> n] : e \in SP, n \in SP}
    \cup {[op |-> "sswap", a |-> p[1], b |-> p[2]] : p \in {x \in SP \X SP : x[1] <= x[2]}}
    \cup {[op |-> "sreset", s |-> s] : s \in SP} \cup {[op |-> "sget", s |-> s] : s \in SP}
    \cup {[op |-> "sunique", s |-> s] : s \in SP}
    \cup {[op |-> "wfrom", w |-> w, s |-> s] : w \in WP, s \in SP}
    \cup {[op |-> "wlock", w |-> w, s |-> s] : w \in WP, s \in SP}
    \cup {[op |-> "wswap", a |-> p[1], b |-> p[2]] : p \in {x \in WP \X WP : x[1] <= x[2]}}
    \cup {[op |-> "wreset", w |-> w] : w \in WP}
    \cup {[op |-> "ualloc", u |-> u, clr |-> c, ok |-> k, zero |-> FALSE] : u \in UP, c \in BOOLEAN, k \in OKs1(wf)}
    \cup {[op |-> "ualloc", u |-> u, clr |-> FALSE, ok |-> <<TRUE>>, zero |-> TRUE] : u \in UP}
    \cup {[op |-> "urelease", u |-> u, outs |-> x] : u \in UP, x \in 0..3} \cup {[op |-> "ureset", u |-> u] : u \in UP}
    \cup {[op |-> "uget", u |-> u] : u \in UP}
    \cup {[op |-> "uswap", a |-> p[1], b |-> p[2]] : p \in {x \in UP \X UP : x[1] <= x[2]}}
\* the allocator's live set according to the model's own events

(***************************************************************************)
(* C20: which (function, argument position) pairs read the guard of the    *)
(* object in that position.  A stray bit-copy in such a position must make *)
(* the call abort; the others re-stamp the object without reading it.      *)
(***************************************************************************)
NoRead == {<<"ginit", 1>>, <<"gset", 1>>, <<"gcopy", 1>>, <<"uinit", 1>>, <<"sinit", 1>>, <<"winit", 1>>,
           <<"ainit", 1>>}
\* pos 3: the same stray copy passed in both argument positions
StrayAborts(f, pos) == IF pos = 3 THEN <<f, 1>> \notin NoRead \/ <<f, 2>> \notin NoRead ELSE <<f, pos>> \notin NoRead

\* the whole C05 contract of one observed operation.  pre/post: canonical
\* states; tsp/twp: the pointer objects after the operation in PRE numbering.
UEv(ev) == SelectSeq(ev, LAMBDA e : e[1] \in {"uclr", "ufree"})
Allocs(ev) == SelectSeq(ev, LAMBDA e : e[1] \in {"allocd", "allocm", "allocu", "allocfail"})
Contract(o, pre, post, nlive, tsp, twp, ev, ret) ==
    LET self == CASE o.op \in {"salloc", "sreset", "wlock"} -> o.s [] o.op = "share" -> o.n [] OTHER -> 0
        \* a clear callback of kind 4 ran for the allocation this operation took its last owner from: it reset S[NS]
        cb4 == self # 0 /\ self # NS /\ pre.sp[self] # 0 /\ pre.al[pre.sp[self]].clr = 4
               /\ \E i \in 1..Len(ev) : ev[i] = <<"clr", pre.sp[self]>>
        psp == IF cb4 THEN [pre.sp EXCEPT ![NS] = 0] ELSE pre.sp
        sameS(X) == \A x \in SP \ X : tsp[x] = psp[x]
        \* a clear callback of kind 2 ran: it reset weak pointer W1 before the memory was freed
        cbReset == \E i \in 1..Len(ev) : ev[i][1] = "clr" /\ ev[i][2] # NEWB /\ pre.al[ev[i][2]].clr = 2
        wBefore(x) == IF cbReset /\ x = 1 THEN 0 ELSE pre.wp[x]
        sameW(X) == \A x \in WP \ X : twp[x] = wBefore(x)
        sameU(X) == \A x \in UP \ X : post.up[x] = pre.up[x]
        ownersLeft(d, s) == {x \in SP : psp[x] = d} \ {s} # {}
        uDrop(u) == (IF pre.up[u].clr THEN << <<"uclr", u>> >> ELSE <<>>)
                    \o (IF pre.up[u].has THEN << <<"ufree", u>> >> ELSE <<>>)
    IN
    /\ LifeOK(pre, tsp, twp, ev)
    \* a clear callback that locks weak pointer W1 (kind 3) gets an owner iff W1's block still has one: never for
    \* the block whose last owner is going away in this very operation
    /\ \A i \in 1..Len(ev) : ev[i][1] = "cblock" =>
          LET w == pre.wp[1] IN
          ev[i][2] = (IF w # 0 /\ pre.al[w].mem /\ (\E x \in SP : tsp[x] = w) THEN 1 ELSE 0)
    \* what is live afterwards is exactly what the pointer objects keep alive: no leak
    /\ \A d \in 1..Len(post.al) : post.al[d].mem = (Owners(post, d) # {})
    /\ nlive = Len(post.al) + Cardinality({d \in 1..Len(post.al) : post.al[d].mem})
                      + Cardinality({u \in UP : post.up[u].has})
    /\ CASE o.op = "salloc" ->
              /\ sameS({o.s}) /\ sameW({}) /\ sameU({})
              /\ IF o.zero THEN tsp[o.s] = 0 /\ Allocs(ev) = <<>>
                 ELSE IF o.ok = <<TRUE, TRUE>> THEN tsp[o.s] = NEWB /\ Allocs(ev) = << <<"allocd">>, <<"allocm">> >>
                 ELSE tsp[o.s] = 0 /\ ~\E i \in 1..Len(ev) : ev[i] = <<"freem", NEWB>>     \* failed allocation: empty, nothing kept
              /\ (tsp[o.s] = NEWB) => LET d == post.sp[o.s] IN post.al[d].mem /\ post.al[d].clr = o.clr
         [] o.op = "share" ->
              /\ sameS({o.n}) /\ sameW({}) /\ sameU({})
              /\ IF o.e = o.n THEN tsp[o.n] \in {0, pre.sp[o.e]} ELSE tsp[o.n] = psp[o.e]      \* (the source may just have been reset by a callback)
         [] o.op = "sswap" -> tsp[o.a] = pre.sp[o.b] /\ tsp[o.b] = pre.sp[o.a] /\ sameS({o.a, o.b}) /\ sameW({}) /\ sameU({}) /\ ev = <<>>
         [] o.op = "sreset" -> tsp[o.s] = 0 /\ sameS({o.s}) /\ sameW({}) /\ sameU({})
         [] o.op = "sget" -> tsp = pre.sp /\ sameW({}) /\ sameU({}) /\ ev = <<>> /\ ret = pre.sp[o.s]
         [] o.op = "sunique" ->
              /\ tsp = pre.sp /\ sameW({}) /\ sameU({}) /\ ev = <<>>
              /\ LET d == pre.sp[o.s] IN
                 (ret = 1) <=> (d = 0 \/ Cardinality(Owners(pre, d)) + Cardinality(Weaks(pre, d)) = 1)
         [] o.op = "wfrom" -> twp[o.w] = pre.sp[o.s] /\ sameW({o.w}) /\ sameS({}) /\ sameU({})
         [] o.op = "wlock" ->
              /\ sameS({o.s}) /\ sameW({}) /\ sameU({})
              /\ LET d == wBefore(o.w) IN                                   \* (W1 may just have been reset by a callback)
                 tsp[o.s] = (IF d # 0 /\ ownersLeft(d, o.s) THEN d ELSE 0)   \* an owner iff an owner still exists
         [] o.op = "wswap" -> twp[o.a] = pre.wp[o.b] /\ twp[o.b] = pre.wp[o.a] /\ sameW({o.a, o.b}) /\ sameS({}) /\ sameU({}) /\ ev = <<>>
         [] o.op = "wreset" -> twp[o.w] = 0 /\ sameW({o.w}) /\ sameS({}) /\ sameU({})
         [] o.op = "ualloc" ->
              /\ sameS({}) /\ sameW({}) /\ sameU({o.u}) /\ UEv(ev) = uDrop(o.u)
              /\ post.up[o.u] = (IF ~o.zero /\ o.ok = <<TRUE>> THEN [has |-> TRUE, clr |-> o.clr] ELSE [has |-> FALSE, clr |-> FALSE])
         [] o.op = "ureset" -> sameS({}) /\ sameW({}) /\ sameU({o.u}) /\ UEv(ev) = uDrop(o.u) /\ ~post.up[o.u].has /\ ~post.up[o.u].clr
         [] o.op = "urelease" ->
              /\ sameS({}) /\ sameW({}) /\ sameU({o.u}) /\ ~post.up[o.u].has /\ ~post.up[o.u].clr
              /\ ret = <<B(pre.up[o.u].has), B(pre.up[o.u].clr)>>
              /\ EvOf(ev, "uclr") = <<>>                         \* ownership was handed over, not destroyed
         [] o.op = "uswap" -> post.up[o.a] = pre.up[o.b] /\ post.up[o.b] = pre.up[o.a] /\ sameU({o.a, o.b}) /\ sameS({}) /\ sameW({}) /\ ev = <<>>
         [] o.op = "uget" -> sameS({}) /\ sameW({}) /\ sameU({}) /\ ev = <<>> /\ ret = B(pre.up[o.u].has)
=============================================================================
