------------------------------- MODULE ArrOps -------------------------------
(***************************************************************************)
(* Model of the array-view objects of src/array.c (cstl_array_t over a     *)
(* shared pointer to a private descriptor) and the contract of C14 (and    *)
(* the array part of C16 / C20).                                           *)
(* State:                                                                  *)
(*   obj[a]  = [t, off, len]: descriptor index (0 = empty) and the view    *)
(*   desc    = live descriptors in canonical order (first reference from   *)
(*             A1..): [nm, sz, ext]  ext = 0: buffer allocated with the    *)
(*             descriptor, e > 0: the caller's external buffer e           *)
(* Element counts / indexes / bounds are size terms [k |-> "n", n] or      *)
(* [k |-> "max", n] = SIZE_MAX - n.  Events as in PtrOps: allocd, allocm,  *)
(* allocfail, <<"freem", d>>, <<"freed", d>> (d in the numbering of the    *)
(* pre-state, NEWB for a descriptor created by the operation).             *)
(***************************************************************************)
EXTENDS Naturals, Integers, Sequences, FiniteSets, TLC
CONSTANTS NA
OBJ == 1..NA
NEWB == 99
EmptyObj == [t |-> 0, off |-> 0, len |-> 0]
Fresh == [obj |-> [a \in OBJ |-> EmptyObj], desc |-> <<>>]
Mk(s, ok) == [s |-> s, ev |-> <<>>, ab |-> FALSE, ok |-> ok]
Ev(m, e) == [m EXCEPT !.ev = Append(@, e)]
NextOK(m) == IF m.ok = <<>> THEN TRUE ELSE Head(m.ok)
PopOK(m) == IF m.ok = <<>> THEN m ELSE [m EXCEPT !.ok = Tail(@)]
Small(t) == t.k = "n"
N(n) == [k |-> "n", n |-> n]

Users(s, d) == {a \in OBJ : s.obj[a].t = d}
(* cstl_shared_ptr_reset on the pointer of object a (offset and length untouched) *)
DropPtr(m, a) ==
    LET d == m.s.obj[a].t
        m1 == [m EXCEPT !.s.obj[a].t = 0]
    IN IF d = 0 THEN m
       ELSE IF Users(m1.s, d) = {} THEN Ev(Ev(m1, <<"freem", d>>), <<"freed", d>>) ELSE m1
ResetM(m, a) == [DropPtr(m, a) EXCEPT !.s.obj[a].off = 0, !.s.obj[a].len = 0]
(* cstl_shared_ptr_share(&src->ptr, &dst->ptr) *)
ShareM(m, src, dst) == LET m1 == DropPtr(m, dst) IN [m1 EXCEPT !.s.obj[dst].t = m1.s.obj[src].t]

(* cstl_array_alloc(a, nm, sz); ext/extnm: what cstl_array_set writes afterwards *)
AllocM(m0, a, nm, sz, ext, extnm) ==
    LET m == ResetM(m0, a) IN
    IF ~Small(nm) \/ sz < 0 THEN m                         \* size not representable (sz = -e: elements of 2^e bytes): stays empty
    ELSE IF ~NextOK(m) THEN Ev(PopOK(m), <<"allocfail">>)
    ELSE LET m1 == Ev(PopOK(m), <<"allocd">>) IN
         IF ~NextOK(m1) THEN Ev(Ev(PopOK(m1), <<"allocfail">>), <<"freed", NEWB>>)
         ELSE LET m2 == Ev(PopOK(m1), <<"allocm">>)
                  n == IF ext = 0 THEN nm.n ELSE extnm
              IN [m2 EXCEPT !.s.desc = Append(@, [nm |-> n, sz |-> sz, ext |-> ext]),
                            !.s.obj[a] = [t |-> Len(m2.s.desc) + 1, off |-> 0, len |-> n]]
SliceM(m, a, beg, end, dst) ==
    LET o == m.s.obj[a]
        d == o.t
    IN IF d = 0 \/ ~Small(end) \/ ~Small(beg) \/ end.n < beg.n \/ end.n > m.s.desc[d].nm
          \/ o.off > m.s.desc[d].nm - end.n
       THEN [m EXCEPT !.ab = TRUE]
       ELSE LET m1 == [m EXCEPT !.s.obj[dst].off = o.off + beg.n, !.s.obj[dst].len = end.n - beg.n]
            IN IF a # dst THEN ShareM(m1, a, dst) ELSE m1
UnsliceM(m, src, a) ==
    LET d == m.s.obj[src].t IN
    IF d = 0 THEN [m EXCEPT !.ab = TRUE]
    ELSE LET m1 == [m EXCEPT !.s.obj[a].off = 0, !.s.obj[a].len = m.s.desc[d].nm]
         IN IF a # src THEN ShareM(m1, src, a) ELSE m1
ReleaseM(m, a) ==
    LET d == m.s.obj[a].t IN
    IF d # 0 /\ m.s.desc[d].ext # 0 /\ Users(m.s, d) = {a}
    THEN [m |-> ResetM(m, a), ret |-> m.s.desc[d].ext]
    ELSE [m |-> m, ret |-> 0]
\* address as [d, o]: descriptor whose buffer it lies in, byte offset from the buffer's start
AtOp(s, a, i) == LET o == s.obj[a] IN
                 IF Small(i) /\ i.n < o.len THEN [ab |-> FALSE, ret |-> <<o.t, (o.off + i.n) * s.desc[o.t].sz>>]
                 ELSE [ab |-> TRUE, ret |-> <<0, 0>>]
DataOp(s, a) == IF s.obj[a].t = 0 THEN <<0, 0>> ELSE <<s.obj[a].t, 0>>

(* canonical form: unreferenced descriptors dropped, renumbered by first reference *)
RECURSIVE Order(_, _, _)
Order(s, i, acc) == IF i > NA THEN acc
                    ELSE LET d == s.obj[i].t IN
                         IF d = 0 \/ \E j \in 1..Len(acc) : acc[j] = d THEN Order(s, i + 1, acc)
                         ELSE Order(s, i + 1, Append(acc, d))
Canon(s) ==
    LET ord == Order(s, 1, <<>>)
        ren(d) == IF d = 0 THEN 0 ELSE CHOOSE j \in 1..Len(ord) : ord[j] = d
    IN [obj |-> [a \in OBJ |-> [t |-> ren(s.obj[a].t), off |-> s.obj[a].off, len |-> s.obj[a].len]],
        desc |-> [j \in 1..Len(ord) |-> s.desc[ord[j]]]]

R2(m, ret) == [m |-> m, ret |-> ret]
Apply(s, o) ==
    LET m == Mk(s, IF "ok" \in DOMAIN o THEN o.ok ELSE <<>>) IN
    CASE o.op = "alloc"   -> R2(AllocM(m, o.a, o.nm, o.sz, 0, 0), 0)
      [] o.op = "set"     -> R2(AllocM(m, o.a, N(0), o.sz, o.e, o.enm), 0)
      [] o.op = "slice"   -> R2(SliceM(m, o.a, o.beg, o.end, o.s), 0)
      [] o.op = "unslice" -> R2(UnsliceM(m, o.s, o.a), 0)
      [] o.op = "reset"   -> R2(ResetM(m, o.a), 0)
      [] o.op = "release" -> LET r == ReleaseM(m, o.a) IN IF o.nob THEN [r EXCEPT !.ret = 0] ELSE r   \* nothing comes back through a NULL out-parameter
      [] o.op = "at"      -> LET r == AtOp(s, o.a, o.i) IN R2([m EXCEPT !.ab = r.ab], r.ret)
      [] o.op = "data"    -> R2(m, DataOp(s, o.a))
      [] o.op = "size"    -> R2(m, s.obj[o.a].len)

\* ---- the operations explored in every state (mx: largest element count, wf: allocations may be made to fail)
Huge == {[k |-> "max", n |-> d] : d \in 0..1}
Bounds(mx) == {N(x) : x \in 0..(mx + 1)} \cup Huge
OKs(wf) == IF wf THEN {<<TRUE, TRUE>>, <<FALSE, TRUE>>, <<TRUE, FALSE>>} ELSE {<<TRUE, TRUE>>}
OpSetF(mx, wf) ==
    {[op |-> "alloc", a |-> a, nm |-> N(n), sz |-> 4, ok |-> k] : a \in OBJ, n \in {0, 2, mx}, k \in OKs(wf)}
    \cup {[op |-> "alloc", a |-> a, nm |-> h, sz |-> z, ok |-> <<TRUE, TRUE>>] : a \in OBJ, h \in Huge, z \in {1, 4}}
    \* one-byte elements, counts so close to SIZE_MAX that only the bookkeeping header makes the byte count wrap
    \cup {[op |-> "alloc", a |-> a, nm |-> [k |-> "max", n |-> d], sz |-> 1, ok |-> <<TRUE, TRUE>>] : a \in OBJ, d \in {8, 15, 22}}
    \* a few elements of 2^60 / 2^63 bytes: the byte count wraps although the element count is small
    \cup {[op |-> "alloc", a |-> a, nm |-> N(16), sz |-> -60, ok |-> <<TRUE, TRUE>>] : a \in OBJ}
    \cup {[op |-> "alloc", a |-> a, nm |-> N(2), sz |-> -63, ok |-> <<TRUE, TRUE>>] : a \in OBJ}
    \* 16-byte elements (a multiple of the widest fundamental alignment)
    \cup {[op |-> "alloc", a |-> a, nm |-> N(n), sz |-> 16, ok |-> <<TRUE, TRUE>>] : a \in OBJ, n \in {2, mx}}
    \cup {[op |-> "set", a |-> a, e |-> e, enm |-> mx, sz |-> 4, ok |-> k] : a \in OBJ, e \in 1..2, k \in OKs(wf)}
    \cup {[op |-> "slice", a |-> a, beg |-> b, end |-> e, s |-> s] : a \in OBJ, s \in OBJ, b \in Bounds(mx), e \in Bounds(mx)}
    \cup {[op |-> "unslice", s |-> s, a |-> a] : s \in OBJ, a \in OBJ}
    \cup {[op |-> "reset", a |-> a] : a \in OBJ} \cup {[op |-> "release", a |-> a, nob |-> x] : a \in OBJ, x \in BOOLEAN}   \* nob: NULL out-parameter (documented as allowed)
    \cup {[op |-> "at", a |-> a, i |-> i] : a \in OBJ, i \in Bounds(mx)}
    \cup {[op |-> "data", a |-> a] : a \in OBJ} \cup {[op |-> "size", a |-> a] : a \in OBJ}

(***************************************************************************)
(* Contract (C14)                                                          *)
(***************************************************************************)
\* every view lies inside its buffer; an object without a buffer is empty
ViewOK(s) == \A a \in OBJ : LET o == s.obj[a] IN
                /\ o.off >= 0 /\ o.len >= 0
                /\ IF o.t = 0 THEN o.len = 0
                   ELSE o.t <= Len(s.desc) /\ o.off + o.len <= s.desc[o.t].nm
EvOf(ev, kd) == SelectSeq(ev, LAMBDA e : e[1] = kd)
Targets(ev, kd) == LET q == EvOf(ev, kd) IN [i \in 1..Len(q) |-> q[i][2]]
SeqSet(q) == {q[i] : i \in 1..Len(q)}
NoDup(q) == \A i, j \in 1..Len(q) : i # j => q[i] # q[j]
\* the allocation lives while any object refers to it and is released exactly once afterwards
LifeOK(pre, tt, ev) ==
    LET lost == {d \in 1..Len(pre.desc) : ~\E a \in OBJ : tt[a] = d} IN
    /\ NoDup(Targets(ev, "freem")) /\ NoDup(Targets(ev, "freed"))
    /\ SeqSet(Targets(ev, "freem")) \ {NEWB} = lost
    /\ SeqSet(Targets(ev, "freed")) \ {NEWB} = lost
Contract(o, pre, post, nlive, tt, out, ev, ret) ==
    LET po == pre.obj
        sameBut(X) == \A a \in OBJ \ X : tt[a] = po[a].t /\ post.obj[a].off = po[a].off /\ post.obj[a].len = po[a].len
        newd(a) == post.desc[post.obj[a].t]
    IN
    /\ out \in {"ok", "abort"}
    /\ out = "abort" <=>
         CASE o.op = "slice" -> LET d == po[o.a].t IN
                                   d = 0 \/ ~Small(o.end) \/ ~Small(o.beg) \/ o.end.n < o.beg.n
                                   \/ po[o.a].off + o.end.n > pre.desc[d].nm          \* mathematical sum, no wrap-around
           [] o.op = "unslice" -> po[o.s].t = 0
           [] o.op = "at" -> ~(Small(o.i) /\ o.i.n < po[o.a].len)
           [] OTHER -> FALSE
    /\ out = "ok" =>
       /\ ViewOK(post)
       /\ LifeOK(pre, tt, ev)
       /\ nlive = 2 * Len(post.desc)                       \* nothing leaked, nothing freed early
       /\ CASE o.op = "alloc" ->
                 /\ sameBut({o.a})
                 /\ IF Small(o.nm) /\ o.sz > 0 /\ o.ok = <<TRUE, TRUE>>        \* o.sz < 0: elements of 2^-sz bytes, the byte count wraps
                    THEN tt[o.a] = NEWB /\ post.obj[o.a].off = 0 /\ post.obj[o.a].len = o.nm.n
                         /\ newd(o.a) = [nm |-> o.nm.n, sz |-> o.sz, ext |-> 0]
                    ELSE tt[o.a] = 0 /\ post.obj[o.a].len = 0          \* a failed allocation leaves the object empty
            [] o.op = "set" ->
                 /\ sameBut({o.a})
                 /\ IF o.ok = <<TRUE, TRUE>>
                    THEN tt[o.a] = NEWB /\ post.obj[o.a].off = 0 /\ post.obj[o.a].len = o.enm
                         /\ newd(o.a) = [nm |-> o.enm, sz |-> o.sz, ext |-> o.e]
                    ELSE tt[o.a] = 0 /\ post.obj[o.a].len = 0
            [] o.op = "slice" ->
                 /\ sameBut({o.s})
                 /\ tt[o.s] = po[o.a].t /\ post.obj[o.s].off = po[o.a].off + o.beg.n
                 /\ post.obj[o.s].len = o.end.n - o.beg.n
            [] o.op = "unslice" ->
                 /\ sameBut({o.a})
                 /\ tt[o.a] = po[o.s].t /\ post.obj[o.a].off = 0 /\ post.obj[o.a].len = pre.desc[po[o.s].t].nm
            [] o.op = "reset" -> sameBut({o.a}) /\ tt[o.a] = 0 /\ post.obj[o.a].len = 0
            [] o.op = "release" ->
                 LET d == po[o.a].t
                     sole == d # 0 /\ pre.desc[d].ext # 0 /\ Users(pre, d) = {o.a} IN
                 IF sole THEN (o.nob \/ ret = pre.desc[d].ext) /\ sameBut({o.a}) /\ tt[o.a] = 0 /\ post.obj[o.a].len = 0
                 ELSE ret = 0 /\ sameBut({}) /\ ev = <<>>
            [] o.op = "at" ->
                 \* an address inside the live underlying buffer of this object
                 /\ sameBut({}) /\ ev = <<>>
                 /\ LET d == po[o.a].t IN
                    ret[1] = d /\ ret[2] >= 0 /\ ret[2] + pre.desc[d].sz <= pre.desc[d].nm * pre.desc[d].sz
            [] o.op = "data" -> sameBut({}) /\ ev = <<>> /\ ret = (IF po[o.a].t = 0 THEN <<0, 0>> ELSE <<po[o.a].t, 0>>)
            [] o.op = "size" -> sameBut({}) /\ ev = <<>> /\ ret = po[o.a].len
=============================================================================
