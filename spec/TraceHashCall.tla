---------------------------- MODULE TraceHashCall ----------------------------
(***************************************************************************)
(* C17, range half: every recorded call HashCall(f, k, m, r) of the        *)
(* built-in hash functions must satisfy 0 <= r < m.  64-bit values are     *)
(* four 16-bit limbs, most significant first (TLC integers are 32-bit).    *)
(* For the division hash with small operands the exact value k % m is      *)
(* demanded as well.  This validates observed calls; it does not decide    *)
(* the property for every key and table size (DESIGN §8).                  *)
(***************************************************************************)
EXTENDS Naturals, Sequences, TLC, Json, IOUtils
Recs == ndJsonDeserialize(IOEnv.TRACE)

RECURSIVE LimbLess(_, _, _)
LimbLess(a, b, i) == IF i > 4 THEN FALSE
                     ELSE IF a[i] < b[i] THEN TRUE
                     ELSE IF a[i] > b[i] THEN FALSE
                     ELSE LimbLess(a, b, i + 1)
InRange(rec) == LimbLess(rec.r, rec.m, 1)
CallOK(rec) ==
    /\ ~rec.crash
    /\ InRange(rec)
    /\ (rec.f = "div" /\ rec.small) => rec.rs = rec.ks % rec.ms

VARIABLE i
TInit == i = 1
TNext == i < Len(Recs) /\ i' = i + 1
         /\ (IF CallOK(Recs[i + 1]) THEN TRUE ELSE PrintT(<<"L2FAIL", "C17", Recs[i + 1].id>>))
TSpec == TInit /\ [][TNext]_i
Done == i = Len(Recs) => PrintT(<<"TRACE-END", i>>)
=============================================================================
