------------------------------- MODULE GenMap -------------------------------
(* Behaviours out of TLC for src/map.c (see GenTree): insert (either key and     *)
(* value object, allocation succeeding or failing), erase and clear chosen by    *)
(* the simulator, printed as JSON and replayed into the real code.               *)
EXTENDS Map, Json
CONSTANT GenDepth
VARIABLE hist
GInit == Init /\ hist = <<>>
GNext == \/ \E k \in Nodes, ko \in 1..2, vo \in 1..2, a \in BOOLEAN :
               DoInsert(k, ko, vo, a) /\ hist' = Append(hist, [op |-> "insert", k |-> k, ko |-> ko, vo |-> vo, a |-> a])
         \/ \E k \in Nodes : DoErase(k) /\ hist' = Append(hist, [op |-> "erase", k |-> k])
         \/ DoClear /\ st.t.size > 5 /\ hist' = Append(hist, [op |-> "clear"])
GSpec == GInit /\ [][GNext]_<<vars, hist>>
Emit == IF Len(hist) < GenDepth THEN TRUE ELSE PrintT(ToJson(hist))
Bound == Len(hist) <= GenDepth
=============================================================================
