--------------------------------- MODULE Str ---------------------------------
(***************************************************************************)
(* L0 for the string: every operation (every position 0..size+1, counts    *)
(* 0..2 and to-the-end, SIZE_MAX and neighbours, every literal/partner,    *)
(* with and without a failing allocation) in every reachable string state  *)
(* up to MaxLen characters; `ok` records the C10 contract of each step.    *)
(***************************************************************************)
EXTENDS StrOps
CONSTANT MaxLen
VARIABLES st, ok
vars == <<st, ok>>
Init == st = Fresh /\ ok = TRUE
NLit == Len(Lits)
Chars == {0, 1, 2}
Huge == {[k |-> "max", n |-> d] : d \in 0..3}
Pos(s) == {N(p) : p \in 0..(Size(s) + 1)}
Cnt(s) == {N(c) : c \in 0..(Size(s) + 1)}
LitLen(l) == Len(CStr(Lits[l], 0))
PLen(l) == IF l = 0 THEN 0 ELSE IF l = 8 THEN 3 ELSE LitLen(l)
Room(s) == MaxLen - Size(s)
F == BOOLEAN
OpSet(s) ==
    {[op |-> "setstr", lit |-> l, fail |-> f] : l \in {x \in 1..NLit : LitLen(x) <= MaxLen}, f \in F}
    \cup {[op |-> "insch", pos |-> p, cnt |-> N(c), c |-> ch, fail |-> f] :
             p \in Pos(s), c \in {x \in 0..2 : x <= Room(s)}, ch \in Chars, f \in F}
    \cup {[op |-> "insch", pos |-> p, cnt |-> h, c |-> 1, fail |-> f] : p \in {N(0), N(Size(s))}, h \in Huge \cup {[k |-> "max", n |-> Size(s)], [k |-> "max", n |-> Size(s) + 1]}, f \in F}
    \cup {[op |-> "insch", pos |-> [k |-> "max", n |-> 0], cnt |-> N(1), c |-> 1, fail |-> f] : f \in F}
    \cup {[op |-> "appch", cnt |-> N(1), c |-> ch, fail |-> f] : ch \in {x \in Chars : Room(s) >= 1}, f \in F}
    \cup {[op |-> "appch", cnt |-> h, c |-> 1, fail |-> f] : h \in Huge, f \in F}
    \cup {[op |-> "insstr", pos |-> p, lit |-> l, fail |-> f] : p \in Pos(s), l \in {x \in 1..NLit : LitLen(x) <= Room(s)}, f \in F}
    \cup UNION {{[op |-> "insstrn", pos |-> p, lit |-> l, cnt |-> N(c), fail |-> f] :
                    p \in Pos(s), c \in {x \in 0..4 : x <= Room(s) /\ x <= Len(Lits[l])}, f \in F} : l \in 1..NLit}
    \cup {[op |-> "insstrn", pos |-> N(0), lit |-> 4, cnt |-> h, fail |-> f] : h \in Huge, f \in F}
    \cup {[op |-> "appstr", lit |-> l, fail |-> f] : l \in {x \in 1..NLit : LitLen(x) <= Room(s)}, f \in F}
    \cup UNION {{[op |-> "appstrn", lit |-> l, cnt |-> N(c), fail |-> f] :
                    c \in {x \in 0..2 : x <= Room(s) /\ x <= Len(Lits[l])}, f \in F} : l \in 1..NLit}
    \cup {[op |-> "ins", pos |-> p, lit |-> l, fail |-> f] : p \in Pos(s), l \in {x \in 0..(NLit + 1) : PLen(x) <= Room(s)}, f \in F}
    \cup {[op |-> "app", lit |-> l, fail |-> f] : l \in {x \in 0..(NLit + 1) : PLen(x) <= Room(s)}, f \in F}
    \cup {[op |-> "erase", pos |-> p, cnt |-> c, fail |-> FALSE] : p \in Pos(s) \cup {[k |-> "max", n |-> 0]}, c \in Cnt(s) \cup Huge}
    \cup {[op |-> "resize", t |-> t, fail |-> f] : t \in {N(x) : x \in 0..MaxLen} \cup Huge, f \in F}
    \cup {[op |-> "reserve", t |-> t, fail |-> f] : t \in {N(x) : x \in 0..MaxLen} \cup Huge, f \in F}
    \cup {[op |-> "clear", fail |-> FALSE]}
    \cup {[op |-> "swap", lit |-> l, fail |-> FALSE] : l \in {x \in 0..(NLit + 1) : PLen(x) <= MaxLen}}
    \cup {[op |-> "substr", pos |-> p, cnt |-> c, lit |-> l, fail |-> f] :
             p \in Pos(s) \cup {[k |-> "max", n |-> 0]}, c \in Cnt(s) \cup Huge, l \in {0, 2, 4}, f \in F}
    \cup {[op |-> "at", t |-> t, fail |-> FALSE] : t \in Pos(s) \cup Huge}
    \cup {[op |-> "findch", c |-> ch, pos |-> p, fail |-> FALSE] : ch \in Chars, p \in Pos(s) \cup Huge}
    \cup {[op |-> "findstr", lit |-> l, pos |-> p, fail |-> FALSE] : l \in 1..NLit, p \in Pos(s) \cup Huge}
    \cup {[op |-> "find", lit |-> l, pos |-> p, fail |-> FALSE] : l \in {0, 4, 8}, p \in Pos(s)}
    \cup {[op |-> "cmpstr", lit |-> l, fail |-> FALSE] : l \in 1..NLit}
    \cup {[op |-> "cmp", lit |-> l, fail |-> FALSE] : l \in {0, 4, 6, 8}}
    \cup {[op |-> "stat", fail |-> FALSE]}
Step(o) == LET r == Apply(st, o) IN
           /\ st' = IF r.m.ab THEN st ELSE r.m.s
           /\ ok' = ContractOK(o, st, r.m.s, IF r.m.ab THEN "abort" ELSE "ok", r.m.ev, r.ret)
Next == \E o \in OpSet(st) : Step(o)
Spec == Init /\ [][Next]_vars
InvOK == ok
InvStorage == StorageOK(st) /\ Size(st) <= MaxLen
=============================================================================
