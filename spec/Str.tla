--------------------------------- MODULE Str ---------------------------------
(***************************************************************************)
(* L0 for the string: every operation (every position 0..size+1, counts    *)
(* 0..2 and to-the-end, SIZE_MAX and neighbours, every literal/partner,    *)
(* with and without a failing allocation) in every reachable string state  *)
(* up to MaxLen characters; `ok` records the C10 contract of each step.    *)
(***************************************************************************)
EXTENDS StrOps
CONSTANT MaxLen
VARIABLES st, ok
vars == <<st, ok>>
Init == st = Fresh /\ ok = TRUE
OpSet(s) == OpSetM(s, MaxLen)
Step(o) == LET r == Apply(st, o) IN
           /\ st' = IF r.m.ab THEN st ELSE r.m.s
           /\ ok' = ContractOK(o, st, r.m.s, IF r.m.ab THEN "abort" ELSE "ok", r.m.ev, r.ret)
Next == \E o \in OpSet(st) : Step(o)
Spec == Init /\ [][Next]_vars
InvOK == ok
InvStorage == StorageOK(st) /\ Size(st) <= MaxLen
=============================================================================
