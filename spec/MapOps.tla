------------------------------- MODULE MapOps -------------------------------
(***************************************************************************)
(* Model of src/map.c over src/rbtree.c and the contract of C08 (and the   *)
(* map part of C15 / C16).                                                 *)
(* The map holds at most one node per key value, so node slot k of the     *)
(* TreeOps pool stands for "the heap-allocated node whose key compares     *)
(* equal to k" (Key = identity, RB = TRUE).  State:                        *)
(*   t     the red-black tree (TreeOps record)                             *)
(*   ko[k] which of the caller's key objects (1 or 2, equal values,        *)
(*         distinct addresses) the node stores; vo[k] its value object     *)
(* Events: <<"alloc">>, <<"allocfail">>, <<"free">>, <<"c", k, ko, vo>>.   *)
(***************************************************************************)
EXTENDS TreeOps
ZeroK == [k \in Nodes |-> 0]
FreshM == [t |-> Empty, ko |-> ZeroK, vo |-> ZeroK]
End == <<0, 0>>                      \* the end iterator
It(s, k) == <<s.ko[k], s.vo[k]>>

InsertM(s, k, ko, vo, ok) ==
    LET f == Find(s.t, k) IN
    IF f.f # 0 THEN [s |-> s, ret |-> 1, it |-> It(s, k), ev |-> <<>>]
    ELSE IF ~ok THEN [s |-> s, ret |-> -1, it |-> End, ev |-> << <<"allocfail">> >>]
    ELSE [s |-> [t |-> RbInsert(s.t, k, f.par), ko |-> [s.ko EXCEPT ![k] = ko], vo |-> [s.vo EXCEPT ![k] = vo]],
          ret |-> 0, it |-> <<ko, vo>>, ev |-> << <<"alloc">> >>]
FindM(s, k) == IF Find(s.t, k).f # 0 THEN It(s, k) ELSE End
Drop(s, k) == [t |-> RbEraseNode(s.t, k), ko |-> [s.ko EXCEPT ![k] = 0], vo |-> [s.vo EXCEPT ![k] = 0]]
EraseM(s, k) ==
    IF Find(s.t, k).f = 0 THEN [s |-> s, ret |-> -1, it |-> End, ev |-> <<>>]
    ELSE [s |-> Drop(s, k), ret |-> 0, it |-> It(s, k), ev |-> << <<"free">> >>]
ClearM(s, withcb) ==
    LET w == ClearOp(s.t).ev      \* nodes in the order cstl_bintree_clear hands them over
        evs == IF withcb THEN [i \in 1..(2 * Len(w)) |-> IF i % 2 = 1 THEN <<"c", w[(i + 1) \div 2], s.ko[w[(i + 1) \div 2]], s.vo[w[(i + 1) \div 2]]>>
                                                          ELSE <<"free">>]
               ELSE [i \in 1..Len(w) |-> <<"free">>]
    IN [s |-> FreshM, ev |-> evs]
CanonM(s) == [t |-> Canon(s.t), ko |-> s.ko, vo |-> s.vo]

(* ---- contract (C08): a function from key values to (key object, value object) ---- *)
Dom(s) == Members(s.t)
Entry(s, k) == It(s, k)
SameBut(pre, post, K) == \A k \in Nodes \ K : (k \in Dom(pre) <=> k \in Dom(post)) /\ (k \in Dom(pre) => Entry(post, k) = Entry(pre, k))
=============================================================================
