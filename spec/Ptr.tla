--------------------------------- MODULE Ptr ---------------------------------
(***************************************************************************)
(* L0 for the smart pointers: every operation over NS shared, NW weak and  *)
(* NU unique pointer objects (self-aliasing calls, operations on empty     *)
(* pointers, re-targeting occupied ones, failing allocations included) in  *)
(* every reachable ownership state; `ok` records the C05 contract.         *)
(***************************************************************************)
EXTENDS PtrOps
CONSTANT WithFaults
VARIABLES st, ok
vars == <<st, ok>>
Init == st = Fresh /\ ok = TRUE
OpSet == OpSetF(WithFaults)
LiveBlocks(s) == Len(s.al) + Cardinality({d \in 1..Len(s.al) : s.al[d].mem}) + Cardinality({u \in UP : s.up[u].has})
Tgt(pre, m, f) == [x \in DOMAIN f |-> IF f[x] > Len(pre.al) THEN NEWB ELSE f[x]]
Step(o) == LET r == Apply(st, o) IN
           /\ st' = Canon(r.m.s)
           /\ ok' = Contract(o, st, Canon(r.m.s), LiveBlocks(Canon(r.m.s)), Tgt(st, r.m, r.m.s.sp), Tgt(st, r.m, r.m.s.wp), r.m.ev, r.ret)
Next == \E o \in OpSet : Step(o)
Spec == Init /\ [][Next]_vars
InvOK == ok
InvCounts == CountsOK(st)
=============================================================================
