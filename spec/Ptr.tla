--------------------------------- MODULE Ptr ---------------------------------
(***************************************************************************)
(* L0 for the smart pointers: every operation over NS shared, NW weak and  *)
(* NU unique pointer objects (self-aliasing calls, operations on empty     *)
(* pointers, re-targeting occupied ones, failing allocations included) in  *)
(* every reachable ownership state; `ok` records the C05 contract.         *)
(***************************************************************************)
EXTENDS PtrOps
CONSTANT WithFaults
VARIABLES st, ok
vars == <<st, ok>>
Init == st = Fresh /\ ok = TRUE
OKs2 == IF WithFaults THEN {<<TRUE, TRUE>>, <<FALSE, TRUE>>, <<TRUE, FALSE>>} ELSE {<<TRUE, TRUE>>}
OKs1 == IF WithFaults THEN {<<TRUE>>, <<FALSE>>} ELSE {<<TRUE>>}
OpSet ==
    {[op |-> "salloc", s |-> s, clr |-> c, ok |-> k, zero |-> FALSE] : s \in SP, c \in (IF NW >= 1 THEN 0..3 ELSE 0..1), k \in OKs2}
    \cup {[op |-> "salloc", s |-> s, clr |-> 0, ok |-> <<TRUE, TRUE>>, zero |-> TRUE] : s \in SP}
    \cup {[op |-> "share", e |-> e, n |-> n] : e \in SP, n \in SP}
    \cup {[op |-> "sswap", a |-> p[1], b |-> p[2]] : p \in {x \in SP \X SP : x[1] <= x[2]}}
    \cup {[op |-> "sreset", s |-> s] : s \in SP} \cup {[op |-> "sget", s |-> s] : s \in SP}
    \cup {[op |-> "sunique", s |-> s] : s \in SP}
    \cup {[op |-> "wfrom", w |-> w, s |-> s] : w \in WP, s \in SP}
    \cup {[op |-> "wlock", w |-> w, s |-> s] : w \in WP, s \in SP}
    \cup {[op |-> "wswap", a |-> p[1], b |-> p[2]] : p \in {x \in WP \X WP : x[1] <= x[2]}}
    \cup {[op |-> "wreset", w |-> w] : w \in WP}
    \cup {[op |-> "ualloc", u |-> u, clr |-> c, ok |-> k, zero |-> FALSE] : u \in UP, c \in BOOLEAN, k \in OKs1}
    \cup {[op |-> "ualloc", u |-> u, clr |-> FALSE, ok |-> <<TRUE>>, zero |-> TRUE] : u \in UP}
    \cup {[op |-> "urelease", u |-> u, outs |-> x] : u \in UP, x \in 0..3} \cup {[op |-> "ureset", u |-> u] : u \in UP}
    \cup {[op |-> "uget", u |-> u] : u \in UP}
    \cup {[op |-> "uswap", a |-> p[1], b |-> p[2]] : p \in {x \in UP \X UP : x[1] <= x[2]}}
\* the allocator's live set according to the model's own events
LiveBlocks(s) == Len(s.al) + Cardinality({d \in 1..Len(s.al) : s.al[d].mem}) + Cardinality({u \in UP : s.up[u].has})
Tgt(pre, m, f) == [x \in DOMAIN f |-> IF f[x] > Len(pre.al) THEN NEWB ELSE f[x]]
Step(o) == LET r == Apply(st, o) IN
           /\ st' = Canon(r.m.s)
           /\ ok' = Contract(o, st, Canon(r.m.s), LiveBlocks(Canon(r.m.s)), Tgt(st, r.m, r.m.s.sp), Tgt(st, r.m, r.m.s.wp), r.m.ev, r.ret)
Next == \E o \in OpSet : Step(o)
Spec == Init /\ [][Next]_vars
InvOK == ok
InvCounts == CountsOK(st)
=============================================================================
