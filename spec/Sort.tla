--------------------------------- MODULE Sort ---------------------------------
(***************************************************************************)
(* L0 for the sorting algorithms: every array up to MaxLen over a 3-letter *)
(* alphabet, every selector (incl. an out-of-range one), and for the       *)
(* randomised quicksort every pivot rand() can draw at every level: the    *)
(* recursion is unfolded with an explicit stack, one qsort call per step,  *)
(* the draw chosen nondeterministically.  A draw that leaves array and     *)
(* range unchanged (last index holding a strict maximum) is a stuttering   *)
(* step: harmless for safety; termination is checked for the other draws   *)
(* (DESIGN §6 C11: the property quantifies over pivots that can be drawn,  *)
(* not over an adversarial infinite sequence).                             *)
(***************************************************************************)
EXTENDS SortOps
CONSTANTS MaxLen, Algos
VARIABLES A0, A, stack, algo, bad
vars == <<A0, A, stack, algo, bad>>
Vals == 1..3
Arrays == UNION {[1..n -> Vals] : n \in 0..MaxLen}
Al(a) == IF a \in 0..3 THEN a ELSE 2
Init == /\ A0 \in Arrays /\ A = A0 /\ algo \in Algos /\ bad = FALSE
        /\ stack = IF Len(A0) > 1 THEN << [lo |-> 0, n |-> Len(A0)] >> ELSE <<>>
Step(draw) ==
    /\ stack # <<>>
    /\ LET top == Head(stack) IN
       IF Al(algo) = 3
       THEN LET h == Hsort(Mk(A)) IN
            /\ A' = h.A /\ bad' = (bad \/ h.bad \/ ~EvInRange(h.ev, Len(A))) /\ stack' = <<>>
       ELSE LET q == QStep(Mk(A), top.lo, top.n, Al(algo), draw) IN
            /\ A' = q.st.A
            /\ bad' = (bad \/ q.st.bad \/ ~EvInRange(q.st.ev, Len(A)) \/ (q.rec /\ ~(q.m >= 0 /\ q.m < top.n)))
            \* recursive calls on ranges of fewer than two elements return at once: not pushed
            /\ stack' = IF q.rec /\ ~q.st.bad
                        THEN SelectSeq(<< [lo |-> top.lo, n |-> q.m + 1], [lo |-> top.lo + q.m + 1, n |-> top.n - q.m - 1] >>,
                                       LAMBDA r : r.n > 1) \o Tail(stack)
                        ELSE Tail(stack)
    /\ UNCHANGED <<A0, algo>>
Draws == IF stack # <<>> /\ Al(algo) = 1 /\ Head(stack).n > 0 THEN 0..(Head(stack).n - 1) ELSE {0}
Next == \E d \in Draws : Step(d)
\* a draw that makes progress (changes the array or the pending ranges)
NextProgress == \E d \in Draws : Step(d) /\ <<A, stack>>' # <<A, stack>>
Spec == Init /\ [][Next]_vars
FairSpec == Spec /\ WF_vars(NextProgress)
Safe == ~bad
Done == stack = <<>> => (Sorted(A) /\ IsPerm(A, A0))
Probes == /\ Sorted(A) => \A x \in 0..4 : SearchContract(A, x, SearchOp(A, x).ret) /\ ~SearchOp(A, x).st.bad
          /\ \A x \in 0..4 : FindContract(A, x, FindOp(A, x).ret)
          /\ ReverseOp(A).A = Rev(A) /\ ~ReverseOp(A).bad
Terminates == <>(stack = <<>>)
=============================================================================
