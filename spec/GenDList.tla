------------------------------- MODULE GenDList -------------------------------
(* Behaviours out of TLC for src/dlist.c (see GenTree): operations chosen by the      *)
(* simulator from the model's own OpSet, printed as JSON, replayed into the real code. *)
EXTENDS DList, Json
CONSTANT GenDepth
VARIABLE hist
GInit == Init /\ hist = <<>>
GNext == \E o \in OpSet(st, TRUE) : Step(o) /\ hist' = Append(hist, o)
GSpec == GInit /\ [][GNext]_<<vars, hist>>
Emit == IF Len(hist) < GenDepth THEN TRUE ELSE PrintT(ToJson(hist))
Bound == Len(hist) <= GenDepth
=============================================================================
