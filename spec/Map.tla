--------------------------------- MODULE Map ---------------------------------
(* L0 for src/map.c: insert (both key objects, both values, failing node       *)
(* allocation), find, erase by key and by iterator, clear, size in every       *)
(* reachable tree shape over NK key values; `ok` records the C08 contract.     *)
EXTENDS MapOps
VARIABLES st, ok
vars == <<st, ok>>
Init == st = FreshM /\ ok = TRUE
DoInsert(k, ko, vo, a) ==
    LET r == InsertM(st, k, ko, vo, a) IN
    /\ st' = CanonM(r.s)
    /\ ok' = /\ StructOK(r.s.t) /\ RbOK(r.s.t)
             /\ IF k \in Dom(st) THEN r.ret = 1 /\ r.it = Entry(st, k) /\ SameBut(st, r.s, {})
                ELSE IF a THEN r.ret = 0 /\ r.it = <<ko, vo>> /\ Dom(r.s) = Dom(st) \cup {k} /\ Entry(r.s, k) = <<ko, vo>> /\ SameBut(st, r.s, {k})
                ELSE r.ret = -1 /\ r.it = End /\ SameBut(st, r.s, {})
DoErase(k) ==
    LET r == EraseM(st, k) IN
    /\ st' = CanonM(r.s)
    /\ ok' = /\ StructOK(r.s.t) /\ RbOK(r.s.t)
             /\ IF k \in Dom(st) THEN r.ret = 0 /\ r.it = Entry(st, k) /\ Dom(r.s) = Dom(st) \ {k} /\ SameBut(st, r.s, {k})
                ELSE r.ret = -1 /\ r.it = End /\ SameBut(st, r.s, {})
DoClear == LET r == ClearM(st, TRUE) IN
           /\ st' = r.s
           /\ ok' = LET cs == SelectSeq(r.ev, LAMBDA e : e[1] = "c") IN
                    /\ Len(cs) = Cardinality(Dom(st))
                    /\ {cs[i][2] : i \in 1..Len(cs)} = Dom(st)
                    /\ \A i \in 1..Len(cs) : <<cs[i][3], cs[i][4]>> = Entry(st, cs[i][2])
                    /\ Len(SelectSeq(r.ev, LAMBDA e : e[1] = "free")) = Cardinality(Dom(st))
Next == \/ \E k \in Nodes, ko \in 1..2, vo \in 1..2, a \in BOOLEAN : DoInsert(k, ko, vo, a)
        \/ \E k \in Nodes : DoErase(k)
        \/ DoClear
Spec == Init /\ [][Next]_vars
InvOK == ok
InvFind == \A k \in Nodes : FindM(st, k) = (IF k \in Dom(st) THEN Entry(st, k) ELSE End)
InvSize == st.t.size = Cardinality(Dom(st))
=============================================================================
