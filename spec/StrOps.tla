------------------------------- MODULE StrOps -------------------------------
(***************************************************************************)
(* Model of src/_string.c over src/vector.c (both character widths) and    *)
(* the contract of C10.                                                    *)
(* Characters: 0 = NUL, 1 = 'a', 2 = 'b', -1 = anything else / never       *)
(* written.  State of one string = state of its vector of characters:      *)
(*   base, blk (bytes), count (characters incl. terminator), cap, ch       *)
(* W = bytes per character.  Positions, counts and lengths are size terms  *)
(* [k |-> "n", n] or [k |-> "max", n] = SIZE_MAX - n (see VecOps).         *)
(* Partner strings (source of insert/append/compare/find, destination of   *)
(* substr, swap partner) are temporaries built from a literal of Lits with *)
(* set_str; Lits[i] is the literal's character array including its         *)
(* terminator (0 = none: a freshly initialised string).                    *)
(* A machine m = [s, ev, ab, ok]: ok = "the next allocation succeeds".     *)
(***************************************************************************)
EXTENDS Naturals, Integers, Sequences, FiniteSets, TLC
CONSTANTS W, Lits

Fresh == [base |-> FALSE, blk |-> 0, count |-> 0, cap |-> 0, ch |-> <<>>]
Mk(s, ok) == [s |-> s, ev |-> <<>>, ab |-> FALSE, ok |-> ok]
Ev(m, e) == [m EXCEPT !.ev = Append(@, e)]
Abort(m) == [m EXCEPT !.ab = TRUE]

Small(t) == t.k = "n"
TGt(t, n) == IF Small(t) THEN t.n > n ELSE TRUE          \* term > n
TGe(t, n) == IF Small(t) THEN t.n >= n ELSE TRUE
Min(a, b) == IF a < b THEN a ELSE b
Clamp(t, n) == IF Small(t) THEN Min(t.n, n) ELSE n
Rep(c, n) == [i \in 1..n |-> c]

Size(s) == IF s.count > 0 THEN s.count - 1 ELSE 0
Capacity(s) == IF s.cap > 0 THEN s.cap - 1 ELSE 0
\* what cstl_string_str points at: size characters and the terminator
StrOf(s) == IF s.base /\ s.count > 0 THEN s.ch ELSE <<0>>
\* the C string starting at 0-based position p of a character array
RECURSIVE CStr(_, _)
CStr(a, p) == IF p + 1 > Len(a) \/ a[p + 1] = 0 THEN <<>> ELSE <<a[p + 1]>> \o CStr(a, p + 1)

(* ---- vector level ---- *)
VReserve(m, n) ==       \* cstl_vector_reserve(v, n), n small
    IF m.ab \/ n <= m.s.cap THEN m
    ELSE IF m.ok THEN [Ev(m, IF m.s.base THEN <<"realloc">> ELSE <<"alloc">>)
                         EXCEPT !.s.base = TRUE, !.s.blk = (n + 1) * W, !.s.cap = n]
    ELSE [Ev(m, <<"allocfail">>) EXCEPT !.ok = TRUE]
VResize(m, n) ==        \* cstl_vector_resize(v, n), n small, no constructor
    IF m.ab THEN m ELSE
    LET m1 == VReserve(m, n) IN
    IF m1.s.cap < n THEN Abort(m1)
    ELSE [m1 EXCEPT !.s.count = n,
                    !.s.ch = IF n <= Len(@) THEN SubSeq(@, 1, n) ELSE @ \o Rep(-1, n - Len(@))]
\* __resize(s, n): n+1 characters, terminator written
SRes(m, n) == LET m1 == VResize(m, n + 1) IN
              IF m1.ab THEN m1 ELSE [m1 EXCEPT !.s.ch[n + 1] = 0]

(* ---- string operations (m in, m out) ---- *)
ResizeM(m, t) ==
    IF ~Small(t) THEN Abort(m)
    ELSE LET sz == Size(m.s)
             m1 == SRes(m, t.n)
         IN IF m1.ab THEN m1
            ELSE [m1 EXCEPT !.s.ch = [i \in 1..Len(@) |-> IF i > sz /\ i <= t.n THEN 0 ELSE @[i]]]
ReserveM(m, t) ==
    IF Small(t) THEN VReserve(m, t.n + 1)
    \* cstl_vector_reserve(v, t + 1): SIZE_MAX + 1 wraps to reserve(0); SIZE_MAX / W or more
    \* elements are unrepresentable (no allocator call); what is left (one-byte characters,
    \* SIZE_MAX - 1 or fewer) is requested from the allocator and refused
    ELSE IF W = 1 /\ t.n >= 2 THEN [Ev(m, <<"allocfail">>) EXCEPT !.ok = TRUE] ELSE m
\* prep_insert followed by writing `fill` (len characters) into the gap
InsertM(m, pos, len, fill) ==
    IF m.ab THEN m
    ELSE IF TGt(pos, Size(m.s)) THEN Abort(m)
    ELSE IF Small(len) /\ len.n = 0 THEN m
    ELSE IF ~Small(len) THEN Abort(m)
    ELSE LET size0 == Size(m.s)
             old == m.s.ch
             m1 == SRes(m, size0 + len.n)
         IN IF m1.ab THEN m1
            ELSE [m1 EXCEPT !.s.ch = SubSeq(old, 1, pos.n) \o fill
                                      \o SubSeq(old, pos.n + 1, size0) \o <<0>>]
InsertChM(m, pos, cnt, c) == InsertM(m, pos, cnt, IF Small(cnt) THEN Rep(c, cnt.n) ELSE <<>>)
InsertStrNM(m, pos, src, len) == InsertM(m, pos, len, IF Small(len) THEN SubSeq(src, 1, len.n) ELSE <<>>)
N(n) == [k |-> "n", n |-> n]
\* set_str(s, lit): resize(0) then append_str
SetStrM(m, lit) == LET m1 == ResizeM(m, N(0))
                       c == CStr(lit, 0)
                   IN InsertStrNM(m1, N(Size(m1.s)), c, N(Len(c)))
\* a temporary partner built from literal id (0: a fresh object); never fails
\* id 8: the string "ab" with a NUL inserted at position 1 (an object whose contents hold an embedded NUL)
Partner(id) == IF id = 0 THEN Fresh
               ELSE IF id = 8 THEN InsertChM(SetStrM(Mk(Fresh, TRUE), Lits[4]), N(1), N(1), 0).s
               ELSE SetStrM(Mk(Fresh, TRUE), Lits[id]).s
EraseM(m, idx, len) ==
    LET size == Size(m.s) IN
    IF TGe(idx, size) THEN Abort(m)
    ELSE LET n == Clamp(len, size - idx.n)
             old == m.s.ch
             m0 == [m EXCEPT !.s.ch = SubSeq(old, 1, idx.n) \o SubSeq(old, idx.n + n + 1, Len(old)) \o Rep(-1, n)]
         IN SRes(m0, size - n)
\* substr into a partner: [m (the destination's machine), ab, sub]
SubstrOp(s, idx, len, did, ok) ==
    LET size == Size(s) IN
    IF TGe(idx, size) THEN [m |-> Abort(Mk(Partner(did), ok)), sub |-> <<>>]
    ELSE LET n == Clamp(len, size - idx.n)
             piece == SubSeq(s.ch, idx.n + 1, idx.n + n)
             m1 == SRes(Mk(Partner(did), ok), n)
         IN IF m1.ab THEN [m |-> m1, sub |-> <<>>]
            ELSE [m |-> [m1 EXCEPT !.s.ch = piece \o <<0>>], sub |-> piece \o <<0>>]
ClearM(m) == [(IF m.s.base THEN Ev(m, <<"free">>) ELSE m) EXCEPT !.s = Fresh]

\* strchr / strstr / strcmp on the C strings
RECURSIVE IndexFrom(_, _, _)
IndexFrom(a, c, p) == IF p + 1 > Len(a) THEN -1
                      ELSE IF a[p + 1] = c THEN p
                      ELSE IF a[p + 1] = 0 THEN -1 ELSE IndexFrom(a, c, p + 1)
FindChOp(s, c, pos) ==
    IF TGe(pos, Size(s)) THEN [ab |-> TRUE, ret |-> 0]
    ELSE LET f == IndexFrom(StrOf(s), c, pos.n)
         IN [ab |-> FALSE, ret |-> IF f = -1 \/ f = Size(s) THEN -1 ELSE f]
IsPrefixAt(h, nd, p) == p + Len(nd) <= Len(h) /\ \A i \in 1..Len(nd) : h[p + i] = nd[i]
FindStrOp(s, needle, pos) ==       \* needle: a C string (no terminator)
    IF TGe(pos, Size(s)) THEN [ab |-> TRUE, ret |-> 0]
    ELSE LET h == CStr(StrOf(s), pos.n)
             hits == {p \in 0..Len(h) : IsPrefixAt(h, needle, p)}
         IN [ab |-> FALSE, ret |-> IF hits = {} THEN -1
                                   ELSE pos.n + (CHOOSE p \in hits : \A q \in hits : p <= q)]
RECURSIVE Cmp(_, _)
Cmp(a, b) == IF a = <<>> /\ b = <<>> THEN 0
             ELSE IF a = <<>> THEN -1 ELSE IF b = <<>> THEN 1
             ELSE IF Head(a) < Head(b) THEN -1 ELSE IF Head(a) > Head(b) THEN 1
             ELSE Cmp(Tail(a), Tail(b))
CompareOp(s, other) == Cmp(CStr(StrOf(s), 0), CStr(other, 0))
AtOp(s, t) == IF Small(t) /\ t.n < Size(s) THEN [ab |-> FALSE, ret |-> t.n * W] ELSE [ab |-> TRUE, ret |-> 0]

(* one entry point per driver operation: [m, ret] *)
R2(m, ret) == [m |-> m, ret |-> ret]
PartnerStr(id) == StrOf(Partner(id))
Apply(s, o) ==
    LET m == Mk(s, ~o.fail) IN
    CASE o.op = "setstr"  -> R2(SetStrM(m, Lits[o.lit]), 0)
      [] o.op = "insch"   -> R2(InsertChM(m, o.pos, o.cnt, o.c), 0)
      [] o.op = "appch"   -> R2(InsertChM(m, N(Size(s)), o.cnt, o.c), 0)
      [] o.op = "insstrn" -> R2(InsertStrNM(m, o.pos, Lits[o.lit], o.cnt), 0)
      [] o.op = "insstr"  -> LET c == CStr(Lits[o.lit], 0) IN R2(InsertStrNM(m, o.pos, c, N(Len(c))), 0)
      [] o.op = "appstr"  -> LET c == CStr(Lits[o.lit], 0) IN R2(InsertStrNM(m, N(Size(s)), c, N(Len(c))), 0)
      [] o.op = "appstrn" -> R2(InsertStrNM(m, N(Size(s)), Lits[o.lit], o.cnt), 0)
      [] o.op = "ins"     -> LET p == Partner(o.lit) IN R2(InsertStrNM(m, o.pos, StrOf(p), N(Size(p))), 0)
      [] o.op = "app"     -> LET p == Partner(o.lit) IN R2(InsertStrNM(m, N(Size(s)), StrOf(p), N(Size(p))), 0)
      [] o.op = "erase"   -> R2(EraseM(m, o.pos, o.cnt), 0)
      [] o.op = "resize"  -> R2(ResizeM(m, o.t), 0)
      [] o.op = "reserve" -> R2(ReserveM(m, o.t), 0)
      [] o.op = "clear"   -> R2(ClearM(m), 0)
      [] o.op = "swap"    -> R2([m EXCEPT !.s = Partner(o.lit)], StrOf(s))
      [] o.op = "substr"  -> LET r == SubstrOp(s, o.pos, o.cnt, o.lit, ~o.fail)
                             IN R2([m EXCEPT !.ev = r.m.ev, !.ab = r.m.ab], r.sub)
      [] o.op = "at"      -> LET a == AtOp(s, o.t) IN R2([m EXCEPT !.ab = a.ab], a.ret)
      [] o.op = "findch"  -> LET a == FindChOp(s, o.c, o.pos) IN R2([m EXCEPT !.ab = a.ab], a.ret)
      [] o.op = "findstr" -> LET a == FindStrOp(s, CStr(Lits[o.lit], 0), o.pos) IN R2([m EXCEPT !.ab = a.ab], a.ret)
      [] o.op = "find"    -> LET a == FindStrOp(s, CStr(PartnerStr(o.lit), 0), o.pos) IN R2([m EXCEPT !.ab = a.ab], a.ret)
      [] o.op = "cmpstr"  -> R2(m, CompareOp(s, Lits[o.lit]))
      [] o.op = "cmp"     -> R2(m, CompareOp(s, PartnerStr(o.lit)))
      [] o.op = "stat"    -> R2(m, <<Size(s), Capacity(s), StrOf(s)>>)

\* ---- the operations explored in every state (ml: longest string of the scope)
NLit == Len(Lits)
Chars == {0, 1, 2}
Huge == {[k |-> "max", n |-> d] : d \in 0..3}
Pos(s) == {N(p) : p \in 0..(Size(s) + 1)}
Cnt(s) == {N(c) : c \in 0..(Size(s) + 1)}
LitLen(l) == Len(CStr(Lits[l], 0))
PLen(l) == IF l = 0 THEN 0 ELSE IF l = 8 THEN 3 ELSE LitLen(l)
Room(s, ml) == ml - Size(s)
F == BOOLEAN
OpSetM(s, ml) ==
    {[op |-> "setstr", lit |-> l, fail |-> f] : l \in {x \in 1..NLit : LitLen(x) <= ml}, f \in F}
    \cup {[op |-> "insch", pos |-> p, cnt |-> N(c), c |-> ch, fail |-> f] :
             p \in Pos(s), c \in {x \in 0..2 : x <= Room(s, ml)}, ch \in Chars, f \in F}
    \cup {[op |-> "insch", pos |-> p, cnt |-> h, c |-> 1, fail |-> f] : p \in {N(0), N(Size(s))}, h \in Huge \cup {[k |-> "max", n |-> Size(s)], [k |-> "max", n |-> Size(s) + 1]}, f \in F}
    \cup {[op |-> "insch", pos |-> [k |-> "max", n |-> 0], cnt |-> N(1), c |-> 1, fail |-> f] : f \in F}
    \cup {[op |-> "appch", cnt |-> N(1), c |-> ch, fail |-> f] : ch \in {x \in Chars : Room(s, ml) >= 1}, f \in F}
    \cup {[op |-> "appch", cnt |-> h, c |-> 1, fail |-> f] : h \in Huge, f \in F}
    \cup {[op |-> "insstr", pos |-> p, lit |-> l, fail |-> f] : p \in Pos(s), l \in {x \in 1..NLit : LitLen(x) <= Room(s, ml)}, f \in F}
    \cup UNION {{[op |-> "insstrn", pos |-> p, lit |-> l, cnt |-> N(c), fail |-> f] :
                    p \in Pos(s), c \in {x \in 0..4 : x <= Room(s, ml) /\ x <= Len(Lits[l])}, f \in F} : l \in 1..NLit}
    \cup {[op |-> "insstrn", pos |-> N(0), lit |-> 4, cnt |-> h, fail |-> f] : h \in Huge, f \in F}
    \cup {[op |-> "appstr", lit |-> l, fail |-> f] : l \in {x \in 1..NLit : LitLen(x) <= Room(s, ml)}, f \in F}
    \cup UNION {{[op |-> "appstrn", lit |-> l, cnt |-> N(c), fail |-> f] :
                    c \in {x \in 0..2 : x <= Room(s, ml) /\ x <= Len(Lits[l])}, f \in F} : l \in 1..NLit}
    \cup {[op |-> "ins", pos |-> p, lit |-> l, fail |-> f] : p \in Pos(s), l \in {x \in 0..(NLit + 1) : PLen(x) <= Room(s, ml)}, f \in F}
    \cup {[op |-> "app", lit |-> l, fail |-> f] : l \in {x \in 0..(NLit + 1) : PLen(x) <= Room(s, ml)}, f \in F}
    \cup {[op |-> "erase", pos |-> p, cnt |-> c, fail |-> FALSE] : p \in Pos(s) \cup {[k |-> "max", n |-> 0]}, c \in Cnt(s) \cup Huge}
    \cup {[op |-> "resize", t |-> t, fail |-> f] : t \in {N(x) : x \in 0..ml} \cup Huge, f \in F}
    \cup {[op |-> "reserve", t |-> t, fail |-> f] : t \in {N(x) : x \in 0..ml} \cup Huge, f \in F}
    \cup {[op |-> "clear", fail |-> FALSE]}
    \cup {[op |-> "swap", lit |-> l, fail |-> FALSE] : l \in {x \in 0..(NLit + 1) : PLen(x) <= ml}}
    \cup {[op |-> "substr", pos |-> p, cnt |-> c, lit |-> l, fail |-> f] :
             p \in Pos(s) \cup {[k |-> "max", n |-> 0]}, c \in Cnt(s) \cup Huge, l \in {0, 2, 4}, f \in F}
    \cup {[op |-> "at", t |-> t, fail |-> FALSE] : t \in Pos(s) \cup Huge}
    \cup {[op |-> "findch", c |-> ch, pos |-> p, fail |-> FALSE] : ch \in Chars, p \in Pos(s) \cup Huge}
    \cup {[op |-> "findstr", lit |-> l, pos |-> p, fail |-> FALSE] : l \in 1..NLit, p \in Pos(s) \cup Huge}
    \cup {[op |-> "find", lit |-> l, pos |-> p, fail |-> FALSE] : l \in {0, 4, 8}, p \in Pos(s)}
    \cup {[op |-> "cmpstr", lit |-> l, fail |-> FALSE] : l \in 1..NLit}
    \cup {[op |-> "cmp", lit |-> l, fail |-> FALSE] : l \in {0, 4, 6, 8}}
    \cup {[op |-> "stat", fail |-> FALSE]}

(***************************************************************************)
(* Contract (C10): a reference string (sequence of characters) and the     *)
(* textbook meaning of each edit on it.                                    *)
(***************************************************************************)
Ref(s) == IF s.count > 0 THEN SubSeq(s.ch, 1, s.count - 1) ELSE <<>>
\* storage and termination of a logged state
StorageOK(s) ==
    /\ s.count >= 0 /\ s.cap >= 0 /\ s.count <= s.cap /\ Len(s.ch) = s.count
    /\ (IF s.base THEN s.blk >= (s.cap + 1) * W ELSE s.cap = 0)
    /\ (s.count > 0 => s.ch[s.count] = 0)
InsRef(r, p, fill) == SubSeq(r, 1, p) \o fill \o SubSeq(r, p + 1, Len(r))
DelRef(r, p, n) == SubSeq(r, 1, p) \o SubSeq(r, p + n + 1, Len(r))
HasFail(ev) == \E i \in 1..Len(ev) : ev[i][1] = "allocfail"
Sign(x) == IF x < 0 THEN -1 ELSE IF x > 0 THEN 1 ELSE 0
\* what the operation must do to the reference string r (size n = Len(r)):
\*   [must |-> "abort" | "ok" | "either", ref |-> new reference, ret |-> value or "any"]
Want(o, r) ==
    LET n == Len(r)
        Grow(p, len, fill) ==       \* insert `fill` (length term len) at position term p
            IF TGt(p, n) THEN [must |-> "abort", ref |-> r]
            ELSE IF ~Small(len) THEN [must |-> "abort", ref |-> r]
            ELSE [must |-> "ok", ref |-> InsRef(r, p.n, fill)]
    IN
    CASE o.op = "setstr"  -> [must |-> "ok", ref |-> CStr(Lits[o.lit], 0)]
      [] o.op = "insch"   -> Grow(o.pos, o.cnt, IF Small(o.cnt) THEN Rep(o.c, o.cnt.n) ELSE <<>>)
      [] o.op = "appch"   -> Grow(N(n), o.cnt, IF Small(o.cnt) THEN Rep(o.c, o.cnt.n) ELSE <<>>)
      [] o.op = "insstrn" -> Grow(o.pos, o.cnt, IF Small(o.cnt) THEN SubSeq(Lits[o.lit], 1, o.cnt.n) ELSE <<>>)
      [] o.op = "insstr"  -> Grow(o.pos, N(Len(CStr(Lits[o.lit], 0))), CStr(Lits[o.lit], 0))
      [] o.op = "appstr"  -> Grow(N(n), N(Len(CStr(Lits[o.lit], 0))), CStr(Lits[o.lit], 0))
      [] o.op = "appstrn" -> Grow(N(n), o.cnt, IF Small(o.cnt) THEN SubSeq(Lits[o.lit], 1, o.cnt.n) ELSE <<>>)
      [] o.op = "ins"     -> LET p == Ref(Partner(o.lit)) IN Grow(o.pos, N(Len(p)), p)
      [] o.op = "app"     -> LET p == Ref(Partner(o.lit)) IN Grow(N(n), N(Len(p)), p)
      [] o.op = "erase"   -> IF TGt(o.pos, n) THEN [must |-> "abort", ref |-> r]
                             ELSE IF TGe(o.pos, n) THEN [must |-> "either", ref |-> r]   \* pos = size: the property is silent
                             ELSE [must |-> "ok", ref |-> DelRef(r, o.pos.n, Clamp(o.cnt, n - o.pos.n))]
      [] o.op = "substr"  -> IF TGt(o.pos, n) THEN [must |-> "abort", ref |-> r]
                             ELSE IF TGe(o.pos, n) THEN [must |-> "either", ref |-> r]
                             ELSE [must |-> "ok", ref |-> r]
      [] o.op = "resize"  -> IF ~Small(o.t) THEN [must |-> "abort", ref |-> r]
                             ELSE [must |-> "ok", ref |-> IF o.t.n <= n THEN SubSeq(r, 1, o.t.n) ELSE r \o Rep(0, o.t.n - n)]
      [] o.op = "reserve" -> [must |-> "ok", ref |-> r]
      [] o.op = "clear"   -> [must |-> "ok", ref |-> <<>>]
      [] o.op = "swap"    -> [must |-> "ok", ref |-> Ref(Partner(o.lit))]
      [] o.op = "at"      -> [must |-> IF Small(o.t) /\ o.t.n < n THEN "ok" ELSE "abort", ref |-> r]
      [] o.op \in {"findch", "findstr", "find"} -> [must |-> IF TGe(o.pos, n) THEN "abort" ELSE "ok", ref |-> r]
      [] o.op \in {"cmpstr", "cmp", "stat"} -> [must |-> "ok", ref |-> r]
\* the value an operation must return, given the reference string before it
RetOK(o, r, ret) ==
    LET whole == r \o <<0>> IN
    CASE o.op = "at"      -> ret = o.t.n * W
      [] o.op = "findch"  -> LET f == IndexFrom(whole, o.c, o.pos.n) IN ret = (IF f = -1 \/ f = Len(r) THEN -1 ELSE f)
      [] o.op = "findstr" -> ret = FindStrOp([base |-> TRUE, ch |-> whole, count |-> Len(whole)], CStr(Lits[o.lit], 0), o.pos).ret
      [] o.op = "find"    -> ret = FindStrOp([base |-> TRUE, ch |-> whole, count |-> Len(whole)], CStr(PartnerStr(o.lit), 0), o.pos).ret
      [] o.op = "cmpstr"  -> Sign(ret) = Cmp(CStr(whole, 0), CStr(Lits[o.lit], 0))
      [] o.op = "cmp"     -> Sign(ret) = Cmp(CStr(whole, 0), CStr(PartnerStr(o.lit), 0))
      [] o.op = "stat"    -> ret[1] = Len(r) /\ ret[3] = whole /\ ret[2] >= ret[1]
      [] o.op = "swap"    -> ret = whole
      [] o.op = "substr"  -> ret = SubSeq(r, o.pos.n + 1, o.pos.n + Clamp(o.cnt, Len(r) - o.pos.n)) \o <<0>>
      [] OTHER -> TRUE

\* the whole contract of one observed operation: outcome out ("ok"/"abort"),
\* events ev, returned value ret, logged states pre and post
ContractOK(o, pre, post, out, ev, ret) ==
    LET r == Ref(pre)
        w == Want(o, r) IN
    /\ out \in {"ok", "abort"}
    /\ CASE w.must = "abort" -> out = "abort"
         [] w.must = "either" -> TRUE
         [] OTHER -> IF o.op = "reserve" THEN out = "ok"
                     ELSE (out = "abort") <=> HasFail(ev)        \* only a failed allocation may abort it
    /\ out = "ok" =>
         /\ StorageOK(post)
         /\ Ref(post) = w.ref
         /\ (w.must = "either" /\ o.op = "substr") => ret = <<0>>
         /\ (w.must = "ok") => RetOK(o, r, ret)
         /\ (o.op = "reserve" /\ Small(o.t) /\ ~HasFail(ev)) => Capacity(post) >= o.t.n
=============================================================================
