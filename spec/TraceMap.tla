------------------------------ MODULE TraceMap ------------------------------
(* Trace validation for the map driver (real src/map.c).                       *)
(*   L1: MapOps predicts the exact tree shape/colours, payload, return code,   *)
(*       iterator contents and events.                                         *)
(*   L2: C08: one entry per key, return codes and iterator contents, other     *)
(*       entries untouched, clear hands every entry over once and frees all.   *)
EXTENDS MapOps, Json, IOUtils
CONSTANT Level
Recs == ndJsonDeserialize(IOEnv.TRACE)
ToSt(j) == [t |-> [root |-> j.root, p |-> j.p, l |-> j.l, r |-> j.r, c |-> j.c, size |-> j.size], ko |-> j.ko, vo |-> j.vo]
Sane(j) == ~j.bad /\ ~j.damage
AllocKinds == {"alloc", "free", "allocfail"}
Norm(ev) == [i \in 1..Len(ev) |-> IF ev[i][1] \in AllocKinds THEN <<ev[i][1]>> ELSE ev[i]]
\* insert and erase may be called without an iterator to fill in (noit): nothing to compare then
ItIs(rec, x) == (rec.op # "erasei" /\ rec.noit) \/ rec.it = x
SameSt(j, s) == Sane(j) /\ ToSt(j) = CanonM(s)
StepOK(rec) ==
    IF rec.out # "ok" \/ ~Sane(rec.pre) THEN FALSE ELSE
    LET pre == ToSt(rec.pre) IN
    CASE rec.op = "insert" -> LET r == InsertM(pre, rec.k, rec.ko, rec.vo, ~rec.fail) IN
                                SameSt(rec.post, r.s) /\ rec.ret = r.ret /\ ItIs(rec, r.it) /\ Norm(rec.ev) = r.ev
      [] rec.op = "find"   -> rec.post = rec.pre /\ rec.it = FindM(pre, rec.k)
      [] rec.op \in {"erase", "erasei"} -> LET r == EraseM(pre, rec.k) IN
                                SameSt(rec.post, r.s) /\ rec.ret = r.ret /\ ItIs(rec, r.it) /\ Norm(rec.ev) = r.ev
      [] rec.op = "clear"  -> LET r == ClearM(pre, rec.cb) IN SameSt(rec.post, r.s) /\ Norm(rec.ev) = r.ev
      [] rec.op = "size"   -> rec.post = rec.pre /\ rec.ret = pre.t.size
      [] OTHER -> FALSE
C08OK(rec) ==
    /\ rec.out = "ok" /\ Sane(rec.post)
    /\ LET pre == ToSt(rec.pre)  post == ToSt(rec.post)  k == rec.k IN
       /\ StructOK(post.t)
       /\ post.t.size = Cardinality(Dom(post))
       /\ rec.post.nlive = Cardinality(Dom(post))              \* exactly one allocated node per entry
       /\ CASE rec.op = "insert" ->
                 IF k \in Dom(pre) THEN rec.ret = 1 /\ ItIs(rec, Entry(pre, k)) /\ Dom(post) = Dom(pre) /\ SameBut(pre, post, {})
                 ELSE IF ~rec.fail THEN /\ rec.ret = 0 /\ ItIs(rec, <<rec.ko, rec.vo>>) /\ Dom(post) = Dom(pre) \cup {k}
                                        /\ Entry(post, k) = <<rec.ko, rec.vo>> /\ SameBut(pre, post, {k})
                 ELSE rec.ret = -1 /\ ItIs(rec, End) /\ Dom(post) = Dom(pre) /\ SameBut(pre, post, {})
            [] rec.op = "find" -> Dom(post) = Dom(pre) /\ SameBut(pre, post, {}) /\ rec.it = (IF k \in Dom(pre) THEN Entry(pre, k) ELSE End)
            [] rec.op \in {"erase", "erasei"} ->
                 IF k \in Dom(pre) THEN rec.ret = 0 /\ ItIs(rec, Entry(pre, k)) /\ Dom(post) = Dom(pre) \ {k} /\ SameBut(pre, post, {k})
                 ELSE rec.ret = -1 /\ ItIs(rec, End) /\ Dom(post) = Dom(pre) /\ SameBut(pre, post, {})
            [] rec.op = "clear" ->
                 LET cs == SelectSeq(rec.ev, LAMBDA e : e[1] = "c") IN
                 /\ Dom(post) = {} /\ post.t.size = 0
                 /\ rec.cb => /\ Len(cs) = Cardinality(Dom(pre)) /\ {cs[i][2] : i \in 1..Len(cs)} = Dom(pre)
                              /\ \A i \in 1..Len(cs) : <<cs[i][3], cs[i][4]>> = Entry(pre, cs[i][2])
            [] rec.op = "size" -> Dom(post) = Dom(pre) /\ SameBut(pre, post, {}) /\ rec.ret = Cardinality(Dom(pre))
            [] OTHER -> FALSE
\* C15: clear hands everything over once and leaves a fresh map; "usable like a freshly initialised one" is also
\* judged on the history that follows: every operation after a clear (nclr = clears so far on this path) meets the
\* map's contract, frees nothing twice and leaves the blocks clear released untouched (state the struct does not show,
\* such as a cached node, is only visible this way)
NoBadFree(rec) == \A j \in 1..Len(rec.ev) : rec.ev[j][1] \notin {"dfree", "badfree", "badrealloc"}
C15OK(rec) == /\ rec.op = "clear" => (C08OK(rec) /\ ToSt(rec.post) = FreshM /\ rec.post.nlive = 0)
              /\ rec.nclr > 0 => (C08OK(rec) /\ NoBadFree(rec))
\* C16: a failing node allocation makes insert return -1, the map holds exactly what it held, nothing leaks
C16OK(rec) == (rec.op = "insert" /\ rec.fail) => C08OK(rec)
ModelOps(rec) ==
    {[op |-> "insert", k |-> k, ko |-> ko, vo |-> vo, fail |-> f, noit |-> FALSE] : k \in Nodes, ko \in 1..2, vo \in 1..2, f \in BOOLEAN}
    \cup {[op |-> "erase", k |-> k, noit |-> FALSE] : k \in Nodes} \cup {[op |-> "clear", cb |-> TRUE]}
\* In a closure the records of one state are contiguous (field g on the first of them = how many).  Every transition
\* the L0 machine can take from that state (ModelOps) must be among the operations the driver applied to the real
\* code there (the driver applies read-only probes on top).  Recs[1] is the trace header (the scope).
Applied(k, o) == \E j \in k..(k + Recs[k].g - 1) : Recs[j].op = o.op /\ \A f \in DOMAIN o : Recs[j][f] = o[f]
OpsOK(k) == LET rec == Recs[k] IN ~Sane(rec.pre) \/ \A o \in ModelOps(rec) : Applied(k, o)
VARIABLE i
Judge(rec) ==
    /\ (IF Level # 2 \/ C15OK(rec) THEN TRUE ELSE PrintT(<<"L2FAIL", "C15", rec.id>>))
    /\ (IF Level # 2 \/ C16OK(rec) THEN TRUE ELSE PrintT(<<"L2FAIL", "C16", rec.id>>))
    /\ (IF Level # 2 \/ C08OK(rec) THEN TRUE ELSE PrintT(<<"L2FAIL", "C08", rec.id>>))
    /\ (IF Level # 1 \/ StepOK(rec) THEN TRUE ELSE PrintT(<<"L1DRIFT", "map", rec.id>>))
TInit == i = 1
TNext == i < Len(Recs) /\ i' = i + 1 /\ Judge(Recs[i + 1])
         /\ (IF Level # 1 \/ Recs[i + 1].g = 0 \/ OpsOK(i + 1) THEN TRUE ELSE PrintT(<<"OPSDIFF", "map", Recs[i + 1].id>>))
TSpec == TInit /\ [][TNext]_i
Done == i = Len(Recs) => PrintT(<<"TRACE-END", i>>)
=============================================================================
