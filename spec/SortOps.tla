------------------------------- MODULE SortOps -------------------------------
(***************************************************************************)
(* Model of the raw-array algorithms of src/array.c at compare-and-swap    *)
(* granularity, and the contract of C11: quicksort partition (Hoare style  *)
(* with a tracked pivot pointer), the three pivot rules (first / random /  *)
(* median of three with its in-place 3-sort and the count > 3 test), heap  *)
(* sort (sift-down), the selector dispatch with its fallback, binary       *)
(* search, linear find and reverse.                                        *)
(* A run state is st = [A, ev, bad]: the array (1-based sequence of        *)
(* values; the C code is 0-based, indexes below are 0-based), the calls    *)
(* made so far: <<"c", x, y>> = cmp(&arr[x], &arr[y]) (index -1 = the      *)
(* caller's probe element), <<"s", x, y>> = swap(&arr[x], &arr[y]), and    *)
(* bad = an index outside [0, count) was formed or a loop ran away.        *)
(***************************************************************************)
EXTENDS Naturals, Integers, Sequences, FiniteSets, TLC

Mk(A) == [A |-> A, ev |-> <<>>, bad |-> FALSE]
InR(st, x) == x >= 0 /\ x < Len(st.A)
V(st, x) == st.A[x + 1]
Bad(st) == [st EXCEPT !.bad = TRUE]
EvC(st, x, y) == [st EXCEPT !.ev = Append(@, <<"c", x, y>>)]
SwapA(st, x, y) ==
    IF ~InR(st, x) \/ ~InR(st, y) THEN Bad(st)
    ELSE [st EXCEPT !.A = [k \in 1..Len(st.A) |-> IF k = x + 1 THEN st.A[y + 1] ELSE IF k = y + 1 THEN st.A[x + 1] ELSE st.A[k]],
                    !.ev = Append(@, <<"s", x, y>>)]

(* ---- cstl_raw_array_qsort_p on arr[lo .. lo+n-1], pivot pointer at absolute index p ---- *)
RECURSIVE WalkUp(_, _, _, _, _)
WalkUp(st, lo, i, p, fuel) ==
    IF fuel = 0 \/ ~InR(st, lo + i) THEN [st |-> Bad(st), i |-> i]
    ELSE LET st1 == EvC(st, lo + i, p) IN
         IF V(st, lo + i) < V(st, p) THEN WalkUp(st1, lo, i + 1, p, fuel - 1) ELSE [st |-> st1, i |-> i]
RECURSIVE WalkDown(_, _, _, _, _)
WalkDown(st, lo, j, p, fuel) ==
    IF fuel = 0 \/ ~InR(st, lo + j) THEN [st |-> Bad(st), j |-> j]
    ELSE LET st1 == EvC(st, lo + j, p) IN
         IF V(st, lo + j) > V(st, p) THEN WalkDown(st1, lo, j - 1, p, fuel - 1) ELSE [st |-> st1, j |-> j]
RECURSIVE PartLoop(_, _, _, _, _, _, _, _)
PartLoop(st, lo, i, j, a, b, p, fuel) ==      \* a, b: absolute indexes, -1 = NULL
    IF st.bad \/ fuel = 0 THEN [st |-> Bad(st), j |-> j]
    ELSE LET sw == a # b
             st1 == IF sw THEN SwapA(st, a, b) ELSE st
             p1 == IF sw THEN (IF p = a THEN b ELSE IF p = b THEN a ELSE p) ELSE p
             i1 == IF sw THEN i + 1 ELSE i
             j1 == IF sw THEN j - 1 ELSE j
         IN IF st1.bad THEN [st |-> st1, j |-> j1]
            ELSE LET u == WalkUp(st1, lo, i1, p1, Len(st.A) + 1) IN
                 IF u.st.bad THEN [st |-> u.st, j |-> j1]
                 ELSE LET d == WalkDown(u.st, lo, j1, p1, Len(st.A) + 1) IN
                      IF d.st.bad THEN [st |-> d.st, j |-> d.j]
                      ELSE IF u.i < d.j THEN PartLoop(d.st, lo, u.i, d.j, lo + u.i, lo + d.j, p1, fuel - 1)
                      ELSE [st |-> d.st, j |-> d.j]
Partition(st, lo, n, p) == PartLoop(st, lo, 0, n - 1, -1, -1, p, Len(st.A) + 2)

(* the median-of-three preamble: sorts first / middle / last in place *)
Med3(st, lo, n) ==
    LET beg == lo  end == lo + n - 1  mid == lo + (n - 1) \div 2
        s1 == EvC(st, end, beg)
        s2 == IF V(st, end) < V(st, beg) THEN SwapA(s1, end, beg) ELSE s1
        s3 == EvC(s2, mid, beg)
    IN IF V(s2, mid) < V(s2, beg) THEN SwapA(s3, mid, beg)
       ELSE LET s4 == EvC(s3, end, mid) IN IF V(s3, end) < V(s3, mid) THEN SwapA(s4, end, mid) ELSE s4

\* one call of cstl_raw_array_qsort up to (not including) its two recursive
\* calls: [st, m, rec]  rec = FALSE when it returned without partitioning.
\* draw: the value rand() % count produced (QUICK_R only)
QStep(st, lo, n, algo, draw) ==
    IF n <= 1 THEN [st |-> st, m |-> 0, rec |-> FALSE]
    ELSE LET st1 == IF algo = 2 THEN Med3(st, lo, n) ELSE st
             p == IF algo = 1 THEN draw ELSE IF algo = 2 THEN (n - 1) \div 2 ELSE 0
         IN IF algo = 2 /\ n <= 3 THEN [st |-> st1, m |-> 0, rec |-> FALSE]
            ELSE LET r == Partition(st1, lo, n, lo + p) IN [st |-> r.st, m |-> r.j, rec |-> TRUE]
\* the whole recursion, consuming the logged draws in call order: [st, dr]
RECURSIVE Qsort(_, _, _, _, _, _)
Qsort(st, lo, n, algo, dr, fuel) ==
    IF st.bad \/ n <= 1 THEN [st |-> st, dr |-> dr]
    ELSE IF fuel = 0 \/ (algo = 1 /\ dr = <<>>) THEN [st |-> Bad(st), dr |-> dr]
    ELSE LET q == QStep(st, lo, n, algo, IF algo = 1 THEN Head(dr) % n ELSE 0)
             dr1 == IF algo = 1 THEN Tail(dr) ELSE dr
         IN IF ~q.rec \/ q.st.bad THEN [st |-> q.st, dr |-> dr1]
            ELSE LET l == Qsort(q.st, lo, q.m + 1, algo, dr1, fuel - 1)
                 IN Qsort(l.st, lo + q.m + 1, n - q.m - 1, algo, l.dr, fuel - 1)

(* ---- heap sort ---- *)
RECURSIVE SiftLoop(_, _, _, _, _)
SiftLoop(st, count, n, c, fuel) ==           \* c = -1: first iteration
    IF st.bad \/ fuel = 0 THEN Bad(st)
    ELSE LET st1 == IF c >= 0 THEN SwapA(st, n, c) ELSE st
             n1 == IF c >= 0 THEN c ELSE n
             l == 2 * n1 + 1  r == l + 1
             s2 == IF l < count THEN EvC(st1, l, n1) ELSE st1
             c1 == IF l < count /\ V(st1, l) > V(st1, n1) THEN l ELSE n1
             s3 == IF r < count THEN EvC(s2, r, c1) ELSE s2
             c2 == IF r < count /\ V(st1, r) > V(st1, c1) THEN r ELSE c1
         IN IF st1.bad THEN st1 ELSE IF n1 = c2 THEN s3 ELSE SiftLoop(s3, count, n1, c2, fuel - 1)
Sift(st, count, n) == SiftLoop(st, count, n, -1, Len(st.A) + 2)
RECURSIVE Heapify(_, _, _)
Heapify(st, count, i) == IF i < 0 \/ st.bad THEN st ELSE Heapify(Sift(st, count, i), count, i - 1)
RECURSIVE Drain(_, _)
Drain(st, i) == IF i <= 0 \/ st.bad THEN st ELSE Drain(Sift(SwapA(st, 0, i), i, 0), i - 1)
Hsort(st) == LET count == Len(st.A) IN
             IF count <= 1 THEN st ELSE Drain(Heapify(st, count, count \div 2 - 1), count - 1)

\* cstl_raw_array_sort: selectors 0 QUICK, 1 QUICK_R, 2 QUICK_M, 3 HEAP, anything else = default (QUICK_M)
SortOp(A, algo, dr) ==
    LET al == IF algo \in 0..3 THEN algo ELSE 2 IN
    IF al = 3 THEN [st |-> Hsort(Mk(A)), dr |-> dr]
    ELSE Qsort(Mk(A), 0, Len(A), al, dr, 4 * Len(A) + 8)

(* ---- search / find / reverse (int indexes as in the code) ---- *)
RECURSIVE SearchLoop(_, _, _, _, _)
SearchLoop(st, x, i, j, fuel) ==
    IF i > j THEN [st |-> st, ret |-> -1]
    ELSE IF fuel = 0 THEN [st |-> Bad(st), ret |-> -1]
    ELSE LET n == (i + j) \div 2
             st1 == EvC(st, -1, n)
         IN IF ~InR(st, n) THEN [st |-> Bad(st), ret |-> -1]
            ELSE IF x = V(st, n) THEN [st |-> st1, ret |-> n]
            ELSE IF x < V(st, n) THEN SearchLoop(st1, x, i, n - 1, fuel - 1)
            ELSE SearchLoop(st1, x, n + 1, j, fuel - 1)
SearchOp(A, x) == SearchLoop(Mk(A), x, 0, Len(A) - 1, Len(A) + 2)
RECURSIVE FindLoop(_, _, _)
FindLoop(st, x, i) == IF i >= Len(st.A) THEN [st |-> st, ret |-> -1]
                      ELSE LET st1 == EvC(st, -1, i) IN
                           IF x = V(st, i) THEN [st |-> st1, ret |-> i] ELSE FindLoop(st1, x, i + 1)
FindOp(A, x) == FindLoop(Mk(A), x, 0)
RECURSIVE RevLoop(_, _, _)
RevLoop(st, i, j) == IF i >= j \/ st.bad THEN st ELSE RevLoop(SwapA(st, i, j), i + 1, j - 1)
ReverseOp(A) == RevLoop(Mk(A), 0, Len(A) - 1)

(***************************************************************************)
(* Contract (C11)                                                          *)
(***************************************************************************)
Sorted(q) == \A i \in 1..(Len(q) - 1) : q[i] <= q[i + 1]
IsPerm(a, b) == Len(a) = Len(b) /\ \A x \in {a[i] : i \in 1..Len(a)} \cup {b[i] : i \in 1..Len(b)} :
                   Cardinality({i \in 1..Len(a) : a[i] = x}) = Cardinality({i \in 1..Len(b) : b[i] = x})
\* every index handed to cmp / swap lies inside the array (or is the probe)
EvInRange(ev, n) == \A k \in 1..Len(ev) :
                      /\ ev[k][1] \in {"c", "s"}
                      /\ (ev[k][2] >= 0 \/ (ev[k][1] = "c" /\ ev[k][2] = -1)) /\ ev[k][2] < n
                      /\ ev[k][3] >= 0 /\ ev[k][3] < n
SortContract(A0, A1, ev) == IsPerm(A1, A0) /\ Sorted(A1) /\ EvInRange(ev, Len(A0))
SearchContract(A, x, ret) ==
    IF \E i \in 1..Len(A) : A[i] = x THEN ret >= 0 /\ ret < Len(A) /\ A[ret + 1] = x ELSE ret = -1
FindContract(A, x, ret) ==
    IF \E i \in 1..Len(A) : A[i] = x THEN ret = (CHOOSE i \in 1..Len(A) : A[i] = x /\ \A j \in 1..(i - 1) : A[j] # x) - 1
    ELSE ret = -1
Rev(q) == [i \in 1..Len(q) |-> q[Len(q) + 1 - i]]
=============================================================================
