------------------------------- MODULE TreeOps -------------------------------
(***************************************************************************)
(* Link-level model of src/bintree.c and src/rbtree.c, and the abstract    *)
(* contract of properties C01, C02 (and the tree part of C15).             *)
(*                                                                         *)
(* Pure-operator style: no variables.  A tree state is a record            *)
(*   [root, p, l, r, c, size]  over the node pool 1..N  (0 = NULL),        *)
(* c[n] = 0 red / 1 black.  Every public function is an operator that      *)
(* follows the C text; Tree.tla wraps them into a state machine for TLC     *)
(* (L0) and TraceTree.tla evaluates them on states logged from the real     *)
(* code (L1 = same post-state, L2 = contract only).                         *)
(***************************************************************************)
EXTENDS Naturals, Integers, Sequences, FiniteSets, TLC

CONSTANTS N,        \* number of nodes in the pool
          Key,      \* Key[n] : the comparison key of node n
          RB        \* TRUE: red-black tree, FALSE: plain binary tree

Nodes == 1..N
R == 0
B == 1
PRE == 0  MID == 1  POST == 2  LEAF == 3      \* cstl_bintree_visit_order_t

ZeroF == [n \in Nodes |-> 0]
Empty == [root |-> 0, p |-> ZeroF, l |-> ZeroF, r |-> ZeroF, c |-> ZeroF, size |-> 0]

Cmp(a, b) == Key[a] - Key[b]

Ch(s, n, d) == IF d = "l" THEN s.l[n] ELSE s.r[n]
SetCh(s, n, d, v) == IF d = "l" THEN [s EXCEPT !.l[n] = v] ELSE [s EXCEPT !.r[n] = v]
SetP(s, n, v) == IF n = 0 THEN s ELSE [s EXCEPT !.p[n] = v]

(* ---- cstl_bintree_find: [f |-> found node or 0, par |-> would-be parent] *)
RECURSIVE FindFrom(_, _, _, _)
FindFrom(s, k, bn, par) ==
    IF bn = 0 THEN [f |-> 0, par |-> par]
    ELSE IF k = Key[bn] THEN [f |-> bn, par |-> par]
    ELSE IF k < Key[bn] THEN FindFrom(s, k, s.l[bn], bn)
    ELSE FindFrom(s, k, s.r[bn], bn)
Find(s, k) == FindFrom(s, k, s.root, 0)

(* ---- cstl_bintree_insert ---- *)
RECURSIVE Descend(_, _, _)
Descend(s, n, cur) ==
    LET d == IF Cmp(n, cur) < 0 THEN "l" ELSE "r" IN
    IF Ch(s, cur, d) = 0 THEN [par |-> cur, dir |-> d]
    ELSE Descend(s, n, Ch(s, cur, d))

BstInsert(s, n, hint) ==
    LET start == IF hint # 0 THEN hint ELSE s.root
        s0 == [s EXCEPT !.l[n] = 0, !.r[n] = 0, !.size = @ + 1]
    IN IF start = 0 THEN [s0 EXCEPT !.root = n, !.p[n] = 0]
       ELSE LET a == Descend(s, n, start)
            IN SetCh([s0 EXCEPT !.p[n] = a.par], a.par, a.dir, n)

(* ---- __cstl_bintree_rotate(t, x, l, r) ---- *)
Rotate(s, x, ld, rd) ==
    LET y   == Ch(s, x, rd)
        yl  == Ch(s, y, ld)
        xp  == s.p[x]
        s1  == SetP(SetCh(s, x, rd, yl), yl, x)
        s2  == [s1 EXCEPT !.p[y] = xp]
        s3  == IF xp = 0 THEN [s2 EXCEPT !.root = y]
               ELSE IF x = Ch(s2, xp, ld) THEN SetCh(s2, xp, ld, y)
               ELSE SetCh(s2, xp, rd, y)
        s4  == SetCh(s3, y, ld, x)
    IN [s4 EXCEPT !.p[x] = y]

(* ---- cstl_rbtree_fix_insertion ---- *)
FixIns(s, x, ld, rd) ==
    LET xp == s.p[x]
        g  == s.p[xp]
        y  == Ch(s, g, rd)
    IN IF y # 0 /\ s.c[y] = R
       THEN [s |-> [s EXCEPT !.c[xp] = B, !.c[y] = B, !.c[g] = R], x |-> g]
       ELSE LET rot == x = Ch(s, xp, rd)
                x1  == IF rot THEN xp ELSE x
                s1  == IF rot THEN Rotate(s, x1, ld, rd) ELSE s
                p1  == s1.p[x1]
                g1  == s1.p[p1]
                s2  == [s1 EXCEPT !.c[p1] = B, !.c[g1] = R]
            IN [s |-> Rotate(s2, g1, rd, ld), x |-> x1]

RECURSIVE InsLoop(_, _)
InsLoop(s, x) ==
    IF s.p[x] # 0 /\ s.c[s.p[x]] = R
    THEN LET xp == s.p[x]
             res == IF xp = s.l[s.p[xp]] THEN FixIns(s, x, "l", "r")
                    ELSE FixIns(s, x, "r", "l")
         IN InsLoop(res.s, res.x)
    ELSE s

RbInsert(s, n, hint) ==
    LET s1 == BstInsert(s, n, hint)
        s2 == [s1 EXCEPT !.c[n] = R]
        s3 == InsLoop(s2, n)
    IN [s3 EXCEPT !.c[s3.root] = B]

(* ---- __cstl_bintree_next for a node with two children ---- *)
RECURSIVE Slide(_, _, _)
Slide(s, n, d) == IF Ch(s, n, d) = 0 THEN n ELSE Slide(s, Ch(s, n, d), d)

(* ---- __cstl_bintree_erase(bt, bn): returns [s, y] ---- *)
BstEraseNode(s, bn) ==
    LET y  == IF s.l[bn] # 0 /\ s.r[bn] # 0 THEN Slide(s, s.r[bn], "l") ELSE bn
        x  == IF s.l[y] # 0 THEN s.l[y] ELSE s.r[y]
        yp == s.p[y]
        s1 == SetP(s, x, yp)
        s2 == IF yp = 0 THEN [s1 EXCEPT !.root = x]
              ELSE IF y = s1.l[yp] THEN [s1 EXCEPT !.l[yp] = x]
              ELSE [s1 EXCEPT !.r[yp] = x]
    IN IF y = bn THEN [s |-> [s2 EXCEPT !.size = @ - 1], y |-> y]
       ELSE
       LET tp == s2.p[y]  tl == s2.l[y]  tr == s2.r[y]
           bp == s2.p[bn]
           s3 == IF bp = 0 THEN [s2 EXCEPT !.root = y]
                 ELSE IF bn = s2.l[bp] THEN [s2 EXCEPT !.l[bp] = y]
                 ELSE [s2 EXCEPT !.r[bp] = y]
           s4 == SetP(SetP(s3, s3.l[bn], y), s3.r[bn], y)
           \* *y = *bn; *bn = t;
           s5 == [s4 EXCEPT !.p[y] = s4.p[bn], !.l[y] = s4.l[bn], !.r[y] = s4.r[bn],
                            !.p[bn] = tp, !.l[bn] = tl, !.r[bn] = tr]
           s6 == IF s5.p[bn] = bn THEN [s5 EXCEPT !.p[bn] = y] ELSE s5
       IN [s |-> [s6 EXCEPT !.size = @ - 1], y |-> y]

(* ---- cstl_rbtree_fix_deletion; x = 0 denotes the stack-local stand-in,
        whose parent is carried in sp ---- *)
PX(s, x, sp) == IF x = 0 THEN sp ELSE s.p[x]
CX(s, x) == IF x = 0 THEN B ELSE s.c[x]
IsBlk(s, n) == n = 0 \/ s.c[n] = B

FixDel(s, x, sp, ld, rd) ==
    LET xp0 == PX(s, x, sp)
        w0  == Ch(s, xp0, rd)
        red == s.c[w0] = R
        s1  == IF red THEN Rotate([s EXCEPT !.c[w0] = B, !.c[xp0] = R], xp0, ld, rd) ELSE s
        xp  == PX(s1, x, sp)
        w   == IF red THEN Ch(s1, xp, rd) ELSE w0
    IN IF IsBlk(s1, Ch(s1, w, ld)) /\ IsBlk(s1, Ch(s1, w, rd))
       THEN [s |-> [s1 EXCEPT !.c[w] = R], x |-> xp]
       ELSE
       LET near == IsBlk(s1, Ch(s1, w, rd))
           s2 == IF near
                 THEN Rotate([s1 EXCEPT !.c[Ch(s1, w, ld)] = B, !.c[w] = R], w, rd, ld)
                 ELSE s1
           xp2 == PX(s2, x, sp)
           w2 == IF near THEN Ch(s2, xp2, rd) ELSE w
           s3 == [s2 EXCEPT !.c[w2] = s2.c[xp2]]
           s4 == [s3 EXCEPT !.c[xp2] = B]
           s5 == [s4 EXCEPT !.c[Ch(s4, w2, rd)] = B]
           s6 == Rotate(s5, xp2, ld, rd)
       IN [s |-> s6, x |-> s6.root]

RECURSIVE DelLoop(_, _, _)
DelLoop(s, x, sp) ==
    IF PX(s, x, sp) # 0 /\ CX(s, x) = B
    THEN LET xp == PX(s, x, sp)
             left == (x # 0 /\ x = s.l[xp]) \/ (x = 0 /\ s.l[xp] = 0)
             res == IF left THEN FixDel(s, x, sp, "l", "r") ELSE FixDel(s, x, sp, "r", "l")
         IN DelLoop(res.s, res.x, sp)
    ELSE IF x = 0 THEN s ELSE [s EXCEPT !.c[x] = B]

RbEraseNode(s, n) ==
    LET e  == BstEraseNode(s, n)
        y  == e.y
        c  == e.s.c[y]
        s1 == [e.s EXCEPT !.c[y] = e.s.c[n]]
    IN IF c # B THEN s1
       ELSE LET x == IF s1.l[n] # 0 THEN s1.l[n] ELSE s1.r[n]
            IN DelLoop(s1, x, s1.p[n])

(* ---- public operations: each returns a record with at least s ---- *)
InsertOp(s, n, hinted) ==
    LET hint == IF hinted THEN Find(s, Key[n]).par ELSE 0
    IN IF RB THEN RbInsert(s, n, hint) ELSE BstInsert(s, n, hint)

EraseOp(s, k) ==
    LET f == Find(s, k).f
    IN IF f = 0 THEN [s |-> s, ret |-> 0]
       ELSE [s |-> IF RB THEN RbEraseNode(s, f) ELSE BstEraseNode(s, f).s, ret |-> f]

(* __cstl_bintree_foreach: both children are captured before the first visit *)
RECURSIVE Walk(_, _, _)
Walk(s, n, rev) ==
    LET ln == IF rev THEN s.r[n] ELSE s.l[n]
        rn == IF rev THEN s.l[n] ELSE s.r[n]
        leaf == ln = 0 /\ rn = 0
    IN IF leaf THEN << <<n, LEAF>> >>
       ELSE << <<n, PRE>> >>
            \o (IF ln # 0 THEN Walk(s, ln, rev) ELSE <<>>)
            \o << <<n, MID>> >>
            \o (IF rn # 0 THEN Walk(s, rn, rev) ELSE <<>>)
            \o << <<n, POST>> >>
FullWalk(s, rev) == IF s.root = 0 THEN <<>> ELSE Walk(s, s.root, rev)

\* what the driver's visit function returns at its stop-th call: any non-zero value must stop the walk and
\* come back unchanged, so the values vary in sign and size (engine.h e_stopval)
StopVal(k) == CASE k % 3 = 1 -> 100 + k [] k % 3 = 2 -> 0 - (100 + k) [] OTHER -> IF k % 2 = 1 THEN 1 ELSE 0 - 1
\* the driver's visit function returns 100+stop at its stop-th call
ForeachOp(s, rev, stop) ==
    LET w == FullWalk(s, rev)
    IN IF stop > 0 /\ stop <= Len(w) THEN [ev |-> SubSeq(w, 1, stop), ret |-> StopVal(stop)]
       ELSE [ev |-> w, ret |-> 0]

ClearOp(s) ==
    LET w == SelectSeq(FullWalk(s, FALSE), LAMBDA e : e[2] = POST \/ e[2] = LEAF)
    IN [ev |-> [i \in 1..Len(w) |-> w[i][1]],
        s  |-> IF s.root = 0 THEN s ELSE [s EXCEPT !.root = 0, !.size = 0]]

\* cstl_bintree_height: for every leaf the number of nodes up to the root
RECURSIVE Depth(_, _)
Depth(s, n) == IF n = 0 THEN 0 ELSE 1 + Depth(s, s.p[n])
HeightOp(s) ==
    LET w == FullWalk(s, FALSE)
        leaves == {w[i][1] : i \in {j \in 1..Len(w) : w[j][2] = LEAF}}
        ds == {Depth(s, n) : n \in leaves}
    IN IF s.root = 0 THEN [min |-> 0, max |-> 0]
       ELSE [min |-> CHOOSE d \in ds : \A e \in ds : d <= e,
             max |-> CHOOSE d \in ds : \A e \in ds : d >= e]

(* ---- structural views ---- *)
RECURSIVE InOrder(_, _)
InOrder(s, n) == IF n = 0 THEN <<>> ELSE InOrder(s, s.l[n]) \o <<n>> \o InOrder(s, s.r[n])
SeqSet(q) == {q[i] : i \in 1..Len(q)}
Members(s) == SeqSet(InOrder(s, s.root))

RECURSIVE BlackH(_, _)   \* -1 if unequal
BlackH(s, n) == IF n = 0 THEN 1
                ELSE LET a == BlackH(s, s.l[n])  b == BlackH(s, s.r[n])
                     IN IF a = -1 \/ b = -1 \/ a # b THEN -1
                        ELSE a + (IF s.c[n] = B THEN 1 ELSE 0)
RECURSIVE Height(_, _)
Height(s, n) == IF n = 0 THEN 0
                ELSE LET a == Height(s, s.l[n])  b == Height(s, s.r[n])
                     IN 1 + (IF a > b THEN a ELSE b)

\* canonical form: links and colours of non-members are garbage in the code
Canon(s) == LET M == Members(s)
                Z(f) == [n \in Nodes |-> IF n \in M THEN f[n] ELSE 0]
            IN [root |-> s.root, p |-> Z(s.p), l |-> Z(s.l), r |-> Z(s.r),
                c |-> IF RB THEN Z(s.c) ELSE ZeroF, size |-> s.size]

(***************************************************************************)
(* The contract (what C01 / C02 state), over any logged state.             *)
(***************************************************************************)
Sorted(seq) == \A i \in 1..(Len(seq) - 1) : Key[seq[i]] <= Key[seq[i + 1]]
NoDup(seq) == \A i, j \in 1..Len(seq) : i # j => seq[i] # seq[j]

\* C01 structure: in-order walk is ordered, lists each member once, size and
\* parent links agree
StructOK(s) ==
    LET io == InOrder(s, s.root) IN
    /\ NoDup(io)
    /\ Sorted(io)
    /\ Len(io) = s.size
    /\ (s.root # 0 => s.p[s.root] = 0)
    /\ \A n \in SeqSet(io) : /\ (s.l[n] # 0 => s.p[s.l[n]] = n)
                             /\ (s.r[n] # 0 => s.p[s.r[n]] = n)
\* C02: the red-black rules and the height bound 2^h <= (n+1)^2
RbOK(s) ==
    /\ (s.root # 0 => s.c[s.root] = B)
    /\ \A n \in Members(s) : s.c[n] = R => IsBlk(s, s.l[n]) /\ IsBlk(s, s.r[n])
    /\ BlackH(s, s.root) # -1
    /\ 2 ^ Height(s, s.root) <= (s.size + 1) * (s.size + 1)

InsertContract(Mpre, Mpost, n) == Mpost = Mpre \cup {n}
EraseContract(Mpre, Mpost, k, ret) ==
    /\ (ret = 0 <=> ~\E n \in Mpre : Key[n] = k)
    /\ (ret # 0 => ret \in Mpre /\ Key[ret] = k)
    /\ Mpost = Mpre \ {ret}
FindContract(M, k, f) ==
    /\ (f = 0 <=> ~\E n \in M : Key[n] = k)
    /\ (f # 0 => f \in M /\ Key[f] = k)

\* events of one element
Idx(ev, n, o) == {i \in 1..Len(ev) : ev[i][1] = n /\ ev[i][2] = o}
Mono(q, rev) == \A i \in 1..(Len(q) - 1) :
                   IF rev THEN Key[q[i]] >= Key[q[i + 1]] ELSE Key[q[i]] <= Key[q[i + 1]]
VisitSeq(ev) == LET v == SelectSeq(ev, LAMBDA e : e[2] = MID \/ e[2] = LEAF)
                IN [i \in 1..Len(v) |-> v[i][1]]
\* conditions every prefix of a legal traversal satisfies
WalkPrefixOK(M, ev, rev) ==
    LET vs == VisitSeq(ev) IN
    /\ \A i \in 1..Len(ev) : ev[i][1] \in M /\ ev[i][2] \in {PRE, MID, POST, LEAF}
    /\ NoDup(vs) /\ Mono(vs, rev)
    /\ \A n \in M :
         /\ Cardinality(Idx(ev, n, PRE)) <= 1 /\ Cardinality(Idx(ev, n, POST)) <= 1
         /\ Cardinality(Idx(ev, n, LEAF)) = 0 \/
              (Idx(ev, n, PRE) = {} /\ Idx(ev, n, MID) = {} /\ Idx(ev, n, POST) = {})
         /\ \A i \in Idx(ev, n, MID) : \E j \in Idx(ev, n, PRE) : j < i
         /\ \A i \in Idx(ev, n, POST) : \E j \in Idx(ev, n, MID) : j < i
WalkFullOK(M, ev, rev) ==
    /\ WalkPrefixOK(M, ev, rev)
    /\ SeqSet(VisitSeq(ev)) = M
    /\ \A n \in M : Idx(ev, n, MID) # {} => Idx(ev, n, POST) # {}
ForeachContract(M, rev, stop, ev, ret) ==
    IF stop > 0 /\ Len(ev) >= stop
    THEN Len(ev) = stop /\ ret = StopVal(stop) /\ WalkPrefixOK(M, ev, rev)
    ELSE ret = 0 /\ WalkFullOK(M, ev, rev)
ClearContract(M, ev) == NoDup(ev) /\ SeqSet(ev) = M
HeightContract(s, mn, mx) ==
    /\ mx = Height(s, s.root)
    /\ mn <= mx /\ (s.root # 0 => mn >= 1)
=============================================================================
