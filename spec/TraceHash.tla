------------------------------ MODULE TraceHash ------------------------------
(***************************************************************************)
(* Trace validation for the hash driver (real src/hash.c).                 *)
(*   L1: HashOps maps pre to exactly post, same return value, same event   *)
(*       sequence (hash calls, visits, clear callbacks, allocator calls).  *)
(*   L2: the contracts of C03 / C04 / C17 / C19 only.                      *)
(***************************************************************************)
EXTENDS HashOps, Json, IOUtils
CONSTANT Level
Recs == ndJsonDeserialize(IOEnv.TRACE)

Pad(bk) == [i \in 1..MaxB |-> IF i <= Len(bk) THEN [chain |-> bk[i].chain, dirty |-> bk[i].dirty] ELSE EmptyB]
ToSt(j) == [at |-> j.at, cap |-> j.cap, count |-> j.count, hash |-> j.hash, bk |-> Pad(j.bk),
            pend |-> j.pend, rhcount |-> j.rhcount, rhclean |-> j.rhclean, rhhash |-> j.rhhash, n |-> j.n]
Sane(j) == ~j.bad /\ ~j.damage /\ Len(j.bk) <= MaxB
SameSt(j, s) == Sane(j) /\ ToSt(j) = Canon(s)
Aux(j) == <<j.cur, j.oat, j.on>>
AllocKinds == {"alloc", "realloc", "free", "allocfail"}
Norm(ev) == [i \in 1..Len(ev) |-> IF ev[i][1] \in AllocKinds THEN <<ev[i][1]>> ELSE ev[i]]

\* L1: the machine the model predicts for this record: [m, ret]
Model(rec) ==
    LET pre == ToSt(rec.pre) IN
    CASE rec.op = "resize" -> [m |-> ResizeOp(pre, rec.cnt, rec.f, ~rec.fail), ret |-> 0]
      [] rec.op = "rehash" -> [m |-> RehashOp(pre), ret |-> 0]
      [] rec.op = "shrink" -> [m |-> ShrinkOp(pre, ~rec.fail), ret |-> 0]
      [] rec.op = "insert" -> [m |-> InsertOp(pre, rec.e), ret |-> 0]
      [] rec.op = "erase"  -> [m |-> EraseOp(pre, rec.e), ret |-> 0]
      [] rec.op = "find"   -> FindOp(pre, rec.k, rec.mode, rec.x)
      [] rec.op = "foreach" -> ForeachOp(pre, rec.stop, rec.er)
      [] rec.op = "foreachc" -> ForeachConstOp(pre, rec.stop)
      [] rec.op = "clear"  -> [m |-> ClearOp(pre, rec.cb), ret |-> 0]
      [] rec.op = "stat"   -> [m |-> Mk(pre), ret |-> 0]
StepOK(rec) ==
    IF ~Sane(rec.pre) THEN FALSE
    ELSE IF rec.op = "swap" THEN
        rec.out = "ok" /\ Sane(rec.post) /\ ToSt(rec.post) = ToSt(rec.pre) /\ rec.post.cur = 1 - rec.pre.cur
        /\ ~rec.post.oat /\ rec.post.on = 0
        /\ rec.post.offk = rec.pre.offk       \* the node offset travels with the contents
    ELSE LET md == Model(rec) IN
         /\ rec.out = (IF md.m.ab THEN "abort" ELSE "ok")
         /\ Norm(rec.ev) = md.m.ev
         /\ ~md.m.ab => /\ SameSt(rec.post, md.m.s) /\ rec.ret = md.ret /\ Aux(rec.post) = Aux(rec.pre) /\ rec.post.offk = rec.pre.offk
                        /\ rec.post.nlive = (IF md.m.s.at THEN 1 ELSE 0)
                        /\ rec.op = "stat" => rec.size = md.m.s.n

\* ---- L2 ---------------------------------------------------------------------
Keyed3 == {"insert", "erase", "find"}
\* outcome: completes, or aborts exactly when a hash call was out of range
OutcomeOK(rec) == /\ rec.out \in {"ok", "abort"}
                  /\ FailStop(rec.ev, rec.out = "abort")
PostOK(rec) == Sane(rec.post) /\ WellFormed(ToSt(rec.post)) /\ ~rec.post.oat /\ rec.post.on = 0
LiveAfter(rec, lp) ==
    CASE rec.op = "insert" -> lp \cup {rec.e}
      [] rec.op = "erase"  -> lp \ {rec.e}
      [] rec.op = "foreach" -> IF rec.er THEN lp \ SeqSet(EvIds(rec.ev, "v")) ELSE lp
      [] rec.op = "clear"  -> {}
      [] OTHER -> lp
C03OK(rec) ==
    /\ OutcomeOK(rec)
    /\ rec.out = "ok" =>
       LET pre == ToSt(rec.pre)  post == ToSt(rec.post)  lp == Live(pre) IN
       /\ PostOK(rec)
       /\ Live(post) = LiveAfter(rec, lp)
       /\ post.n = Cardinality(Live(post))
       /\ rec.op = "find" => FindContract(lp, rec.k, rec.mode, rec.x, rec.ev, rec.ret)
       /\ rec.op = "stat" => rec.size = Cardinality(lp)
C04OK(rec) ==
    /\ OutcomeOK(rec)
    /\ rec.out = "ok" =>
       LET pre == ToSt(rec.pre)  post == ToSt(rec.post)  lp == Live(pre) IN
       /\ PostOK(rec)
       /\ rec.op \in {"foreach", "foreachc"} => WalkContract(lp, rec.stop, rec.ev, rec.ret)
       /\ rec.op = "foreach" => Live(post) = LiveAfter(rec, lp)
       /\ rec.op = "foreachc" => Live(post) = lp
       \* clear: every element handed over once, table empty, bucket array released
       \* ("reusable after a fresh resize" is judged on the operations that follow
       \* it in the closure: they must complete)
       /\ rec.op = "clear" => /\ ClearContract(lp, rec.cb, rec.ev)
                              /\ Live(post) = {} /\ post.n = 0 /\ rec.post.nlive = 0
C17OK(rec) == OutcomeOK(rec) /\ (rec.out = "ok" => Sane(rec.post))
C19OK(rec) ==
    /\ OutcomeOK(rec)
    /\ rec.out = "ok" =>
       LET pre == ToSt(rec.pre)  post == ToSt(rec.post) IN
       /\ PostOK(rec)
       /\ rec.op \in Keyed3 =>
            /\ KeyedWork(pre, post)
            /\ OneCall(pre, IF rec.op = "find" THEN rec.k ELSE KeyOf[rec.e], rec.ev)
       /\ rec.op = "resize" =>
            LET sat == ~rec.fail \/ rec.cnt <= pre.cap
                prevH == TargetHash(pre) IN
            sat => /\ TargetCount(post) = rec.cnt
                   /\ TargetHash(post) = (IF rec.f # 0 THEN rec.f ELSE IF prevH # 0 THEN prevH ELSE 3)
       /\ rec.op = "rehash" => ~post.pend
       /\ (rec.op = "stat" /\ TargetCount(pre) > 0) =>
            \* cstl_hash_load = size / target bucket count (logged x 10^6, float precision)
            LET want == (pre.n * 1000000) \div TargetCount(pre) IN
            rec.load6 >= want - 2 /\ rec.load6 <= want + 2
       /\ (post.pend => post.rhclean <= post.count)

\* C16: resize and shrink-to-fit quietly do nothing when the bucket array cannot be (re)allocated
C16OK(rec) == (rec.op \in {"resize", "shrink"} /\ rec.fail) =>
                 /\ C03OK(rec) /\ rec.out = "ok"
                 /\ (\E k \in 1..Len(rec.ev) : rec.ev[k][1] = "allocfail") =>
                       (Live(ToSt(rec.post)) = Live(ToSt(rec.pre)) /\ ToSt(rec.post).cap = ToSt(rec.pre).cap)
\* Every transition the L0 machine (Hash.tla) can take from a state, in the argument space common to all scopes
\* (allocation succeeding, walk to the end), must have been applied to the real table in that state.
ModelOps(rec) == LET pre == ToSt(rec.pre) IN
    {[op |-> "resize", cnt |-> c, f |-> f, fail |-> FALSE] : c \in 1..MaxB, f \in {Recs[1].funcs[x] : x \in 1..Len(Recs[1].funcs)}}
    \cup {[op |-> "shrink", fail |-> FALSE], [op |-> "clear", cb |-> TRUE]}
    \cup (IF ~pre.at THEN {} ELSE
            {[op |-> "rehash"], [op |-> "foreach", stop |-> 0, er |-> FALSE]}
            \cup {[op |-> "insert", e |-> e] : e \in (1..NE) \ Live(pre)}
            \cup {[op |-> "erase", e |-> e] : e \in 1..NE}
            \cup {[op |-> "find", k |-> KeyOf[e], mode |-> 0, x |-> 0] : e \in 1..NE})
Applied(k, o) == \E j \in k..(k + Recs[k].g - 1) : Recs[j].op = o.op /\ \A f \in DOMAIN o : Recs[j][f] = o[f]
OpsOK(k) == LET rec == Recs[k] IN ~Sane(rec.pre) \/ \A o \in ModelOps(rec) : Applied(k, o)
VARIABLE i
Judge(rec) ==
    /\ (IF Level # 2 \/ C16OK(rec) THEN TRUE ELSE PrintT(<<"L2FAIL", "C16", rec.id>>))
    /\ (IF Level # 2 \/ C03OK(rec) THEN TRUE ELSE PrintT(<<"L2FAIL", "C03", rec.id>>))
    /\ (IF Level # 2 \/ C04OK(rec) THEN TRUE ELSE PrintT(<<"L2FAIL", "C04", rec.id>>))
    /\ (IF Level # 2 \/ C17OK(rec) THEN TRUE ELSE PrintT(<<"L2FAIL", "C17", rec.id>>))
    /\ (IF Level # 2 \/ C19OK(rec) THEN TRUE ELSE PrintT(<<"L2FAIL", "C19", rec.id>>))
    /\ (IF Level # 1 \/ StepOK(rec) THEN TRUE ELSE PrintT(<<"L1DRIFT", "hash", rec.id>>))
TInit == i = 1
TNext == i < Len(Recs) /\ i' = i + 1 /\ Judge(Recs[i + 1])
         /\ (IF Level # 1 \/ Recs[i + 1].g = 0 \/ OpsOK(i + 1) THEN TRUE ELSE PrintT(<<"OPSDIFF", "hash", Recs[i + 1].id>>))
TSpec == TInit /\ [][TNext]_i
Done == i = Len(Recs) => PrintT(<<"TRACE-END", i>>)
=============================================================================
