----------------------------- MODULE TraceSList -----------------------------
(***************************************************************************)
(* Trace validation for the slist driver (real src/slist.c).               *)
(*   L1: SListOps.Apply maps pre to exactly the logged post links, same    *)
(*       return value and callback sequence.                               *)
(*   L2: C13 on the sequences read from the logged links                   *)
(*       (tail invariant included; C15 for clear).                          *)
(***************************************************************************)
EXTENDS SListOps, Json, IOUtils
CONSTANT Level
Recs == ndJsonDeserialize(IOEnv.TRACE)

ToSt(j) == [hn |-> j.hn, t |-> j.t, count |-> j.count, nx |-> j.nx, offk |-> j.offk]
StepOK(rec) ==
    IF rec.out # "ok" \/ rec.pre.bad \/ rec.post.bad THEN FALSE ELSE
    LET r == Apply(ToSt(rec.pre), rec) IN
    ToSt(rec.post) = Canon(r.s) /\ rec.ret = r.ret /\ rec.ev = r.ev
C13OK(rec) ==
    /\ rec.out = "ok" /\ ~rec.post.bad
    /\ LET post == ToSt(rec.post) IN
       /\ WF(post)
       /\ Contract(rec, Seqs(ToSt(rec.pre)), Seqs(post), rec.ret, rec.ev)

C15OK(rec) == rec.op = "clear" => C13OK(rec)
ExtraOps == {}
\* In a closure the records of one state are contiguous (field g on the first of them = how many): the operations the
\* driver applied in that state must be exactly the model's own OpSet for it - no operation of the model is left
\* untried on the real code in any reachable state, and the driver tries nothing the model does not know.
GroupOps(k, S) ==
    LET names == {o.op : o \in S}
        FieldsOf(nm) == DOMAIN (CHOOSE o \in S : o.op = nm)
        J == {j \in k..(k + Recs[k].g - 1) : Recs[j].op \in names}
    IN {[f \in FieldsOf(Recs[j].op) |-> Recs[j][f]] : j \in J}
OpsOK(k) == LET rec == Recs[k]  S == OpSet(ToSt(rec.pre), TRUE) IN
            rec.pre.bad \/ (/\ GroupOps(k, S) = S
                            /\ \A j \in k..(k + rec.g - 1) : Recs[j].op \in {o.op : o \in S} \cup ExtraOps)
VARIABLE i
Judge(rec) ==
    /\ (IF Level # 2 \/ C15OK(rec) THEN TRUE ELSE PrintT(<<"L2FAIL", "C15", rec.id>>))
    /\ (IF Level # 2 \/ C13OK(rec) THEN TRUE ELSE PrintT(<<"L2FAIL", "C13", rec.id>>))
    /\ (IF Level # 1 \/ StepOK(rec) THEN TRUE ELSE PrintT(<<"L1DRIFT", "slist", rec.id>>))
TInit == i = 1
TNext == i < Len(Recs) /\ i' = i + 1 /\ Judge(Recs[i + 1])
         /\ (IF Level # 1 \/ Recs[i + 1].g = 0 \/ OpsOK(i + 1) THEN TRUE ELSE PrintT(<<"OPSDIFF", "slist", Recs[i + 1].id>>))
TSpec == TInit /\ [][TNext]_i
Done == i = Len(Recs) => PrintT(<<"TRACE-END", i>>)
=============================================================================
