----------------------------- MODULE TraceSList -----------------------------
(***************************************************************************)
(* Trace validation for the slist driver (real src/slist.c).               *)
(*   L1: SListOps.Apply maps pre to exactly the logged post links, same    *)
(*       return value and callback sequence.                               *)
(*   L2: C13 on the sequences read from the logged links                   *)
(*       (tail invariant included; C15 for clear).                          *)
(***************************************************************************)
EXTENDS SListOps, Json, IOUtils
CONSTANT Level
Recs == ndJsonDeserialize(IOEnv.TRACE)

ToSt(j) == [hn |-> j.hn, t |-> j.t, count |-> j.count, nx |-> j.nx, offk |-> j.offk]
StepOK(rec) ==
    IF rec.out # "ok" \/ rec.pre.bad \/ rec.post.bad THEN FALSE ELSE
    LET r == Apply(ToSt(rec.pre), rec) IN
    ToSt(rec.post) = Canon(r.s) /\ rec.ret = r.ret /\ rec.ev = r.ev
C13OK(rec) ==
    /\ rec.out = "ok" /\ ~rec.post.bad
    /\ LET post == ToSt(rec.post) IN
       /\ WF(post)
       /\ Contract(rec, Seqs(ToSt(rec.pre)), Seqs(post), rec.ret, rec.ev)

C15OK(rec) == rec.op = "clear" => C13OK(rec)
VARIABLE i
Judge(rec) ==
    /\ (IF Level # 2 \/ C15OK(rec) THEN TRUE ELSE PrintT(<<"L2FAIL", "C15", rec.id>>))
    /\ (IF Level # 2 \/ C13OK(rec) THEN TRUE ELSE PrintT(<<"L2FAIL", "C13", rec.id>>))
    /\ (IF Level # 1 \/ StepOK(rec) THEN TRUE ELSE PrintT(<<"L1DRIFT", "slist", rec.id>>))
TInit == i = 1
TNext == i < Len(Recs) /\ i' = i + 1 /\ Judge(Recs[i + 1])
TSpec == TInit /\ [][TNext]_i
Done == i = Len(Recs) => PrintT(<<"TRACE-END", i>>)
=============================================================================
