------------------------------ MODULE TraceArr ------------------------------
(* Trace validation for the array driver (real array objects of src/array.c). *)
(*   L1: ArrOps predicts outcome, exact post-state, return value and events.  *)
(*   L2: C14 (views inside their buffer, documented aborts, buffer lifetime,  *)
(*       release, failed allocation leaves the object empty) and, for stray   *)
(*       probes, C20.                                                         *)
EXTENDS ArrOps, Json, IOUtils
CONSTANT Level
Recs == ndJsonDeserialize(IOEnv.TRACE)
ToSt(j) == [obj |-> [a \in OBJ |-> [t |-> j.obj[a].t, off |-> j.obj[a].off, len |-> j.obj[a].len]],
            desc |-> [d \in 1..Len(j.desc) |-> [nm |-> j.desc[d].nm, sz |-> j.desc[d].sz, ext |-> j.desc[d].ext]]]
Sane(j) == ~j.bad /\ ~j.damage
InB(j) == \A a \in OBJ : j.obj[a].inb         \* every index below size addressed live storage (API-level probe)
F1(q) == [x \in 1..Len(q) |-> q[x]]
NoReadA == {<<"asize", 1>>, <<"ainit", 1>>}
\* pos 3: the same stray copy passed in both argument positions
StrayAborts(f, pos) == IF pos = 3 THEN <<f, 1>> \notin NoReadA \/ <<f, 2>> \notin NoReadA ELSE <<f, pos>> \notin NoReadA
StepOK(rec) ==
    IF ~Sane(rec.pre) THEN FALSE
    ELSE IF rec.op = "stray" THEN rec.out = (IF StrayAborts(rec.f, rec.pos) THEN "abort" ELSE "ok")
    ELSE LET r == Apply(ToSt(rec.pre), rec) IN
         /\ rec.out = (IF r.m.ab THEN "abort" ELSE "ok")
         /\ ~r.m.ab => /\ Sane(rec.post) /\ ToSt(rec.post) = Canon(r.m.s) /\ rec.ret = r.ret /\ rec.ev = r.m.ev
C14OK(rec) ==
    IF rec.op = "stray" THEN TRUE ELSE
    /\ rec.out \in {"ok", "abort"}
    /\ rec.out = "ok" => Sane(rec.post) /\ InB(rec.post)
    /\ Contract(rec, ToSt(rec.pre), IF rec.out = "ok" THEN ToSt(rec.post) ELSE Fresh,
                IF rec.out = "ok" THEN rec.post.nlive ELSE 0, F1(rec.tt), rec.out, rec.ev,
                IF rec.out = "ok" THEN rec.ret ELSE 0)
C20OK(rec) ==
    IF rec.op = "stray" THEN rec.out = (IF StrayAborts(rec.f, rec.pos) THEN "abort" ELSE "ok") ELSE TRUE
\* C16: a failed array allocation leaves the object empty, nothing leaked
C16OK(rec) == (rec.op \in {"alloc", "set"} /\ \E k \in 1..Len(rec.ok) : ~rec.ok[k]) => C14OK(rec)
ExtraOps == {"stray"}
\* In a closure the records of one state are contiguous (field g on the first of them = how many): the operations the
\* driver applied in that state must be exactly the model's own OpSet for it - no operation of the model is left
\* untried on the real code in any reachable state, and the driver tries nothing the model does not know.
\* (Recs[1] is the trace header: it carries the scope the driver was run with.)
GroupOps(k, S) ==
    LET names == {o.op : o \in S}
        FieldsOf(nm) == DOMAIN (CHOOSE o \in S : o.op = nm)
        J == {j \in k..(k + Recs[k].g - 1) : Recs[j].op \in names}
    IN {[f \in FieldsOf(Recs[j].op) |-> Recs[j][f]] : j \in J}
OpsOK(k) == LET rec == Recs[k]  S == OpSetF(Recs[1].maxn, Recs[1].faults) IN
            ~Sane(rec.pre) \/ (/\ GroupOps(k, S) = S
                               /\ \A j \in k..(k + rec.g - 1) : Recs[j].op \in {o.op : o \in S} \cup ExtraOps)
VARIABLE i
Judge(rec) ==
    /\ (IF Level # 2 \/ C16OK(rec) THEN TRUE ELSE PrintT(<<"L2FAIL", "C16", rec.id>>))
    /\ (IF Level # 2 \/ C14OK(rec) THEN TRUE ELSE PrintT(<<"L2FAIL", "C14", rec.id>>))
    /\ (IF Level # 2 \/ C20OK(rec) THEN TRUE ELSE PrintT(<<"L2FAIL", "C20", rec.id>>))
    /\ (IF Level # 1 \/ StepOK(rec) THEN TRUE ELSE PrintT(<<"L1DRIFT", "arr", rec.id>>))
TInit == i = 1
TNext == i < Len(Recs) /\ i' = i + 1 /\ Judge(Recs[i + 1])
         /\ (IF Level # 1 \/ Recs[i + 1].g = 0 \/ OpsOK(i + 1) THEN TRUE ELSE PrintT(<<"OPSDIFF", "arr", Recs[i + 1].id>>))
TSpec == TInit /\ [][TNext]_i
Done == i = Len(Recs) => PrintT(<<"TRACE-END", i>>)
=============================================================================
