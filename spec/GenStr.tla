------------------------------- MODULE GenStr -------------------------------
(* Behaviours out of TLC for src/_string.c (see GenTree): operations chosen by the simulator from *)
(* the model's own OpSet (aborting ones end a process and are left to the closure), printed   *)
(* as JSON and replayed into the real code.                                                   *)
EXTENDS Str, Json
CONSTANT GenDepth
VARIABLE hist
GInit == Init /\ hist = <<>>
\* read-only calls do not move the walk: they stay with the closure and the random histories
GenOps(s) == {o \in OpSet(s) : o.op \notin {"at", "findch", "findstr", "find", "cmpstr", "cmp", "stat"}}
GNext == \E o \in GenOps(st) : ~Apply(st, o).m.ab /\ Step(o) /\ hist' = Append(hist, o)
GSpec == GInit /\ [][GNext]_<<vars, hist>>
Emit == IF Len(hist) < GenDepth THEN TRUE ELSE PrintT(ToJson(hist))
Bound == Len(hist) <= GenDepth
=============================================================================
