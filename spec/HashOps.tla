------------------------------- MODULE HashOps -------------------------------
(***************************************************************************)
(* Bucket-level model of src/hash.c (incrementally rehashed hash table)    *)
(* and the abstract contract of C03, C04, C17 (fail-stop half) and C19.    *)
(*                                                                         *)
(* State (one table):                                                      *)
(*   at      bucket array allocated?        cap     its capacity           *)
(*   count   buckets of the current geometry, hash  its function id        *)
(*   pend    a rehash is pending (bucket.rh.hash # NULL)                   *)
(*   rhcount / rhhash  pending geometry,    rhclean  sweep index           *)
(*   n       element count                                                 *)
(*   bk      1..MaxB -> [chain : Seq(Elem), dirty : BOOLEAN]               *)
(*           dirty = "bucket bit differs from the table bit" so the        *)
(*           polarity of the bit is canonicalised away; chain order kept   *)
(* Function ids: 0 NULL, 1 k%m, 2 (k\div 2)%m, 3 cstl_hash_mul (tabulated  *)
(* by the driver for the scope, not logged), 4-6 bad functions returning   *)
(* m, 2^32 + k%m, SIZE_MAX (both -1 here) for BadKey.                                  *)
(*                                                                         *)
(* Every operation threads a "machine" m = [s, ev, ab]: state, the events  *)
(* so far (hash calls <<"h",f,k,m,r>>, visits <<"v",e>>, clear callbacks   *)
(* <<"c",e>>, allocator calls) and whether the code has called abort().    *)
(* FIXED = FALSE models the tree as pinned (three defects, DESIGN §7).     *)
(***************************************************************************)
EXTENDS Naturals, Integers, Sequences, FiniteSets, TLC

CONSTANTS NE,       \* number of elements in the pool
          KeyOf,    \* KeyOf[e]
          MaxB,     \* largest bucket count requested
          MulTab,   \* MulTab[k+1][m] = cstl_hash_mul(k, m) for the scope
          FIXED

Elems == 1..NE
BadKey == 1
Big == -1

H(f, k, m) == CASE f = 1 -> k % m
                [] f = 2 -> (k \div 2) % m
                [] f = 3 -> MulTab[k + 1][m]
                [] f = 4 -> IF k = BadKey THEN m ELSE k % m
                [] f = 5 -> IF k = BadKey THEN Big ELSE k % m       \* 2^32 + k % m in the driver: in range only if truncated to 32 bits
                [] f = 6 -> IF k = BadKey THEN Big ELSE k % m
InRange(r, m) == r >= 0 /\ r < m

EmptyB == [chain |-> <<>>, dirty |-> FALSE]
Fresh == [at |-> FALSE, cap |-> 0, count |-> 0, hash |-> 0,
          bk |-> [i \in 1..MaxB |-> EmptyB],
          pend |-> FALSE, rhcount |-> 0, rhclean |-> 0, rhhash |-> 0, n |-> 0]

Mk(s) == [s |-> s, ev |-> <<>>, ab |-> FALSE]
Ev(m, e) == [m EXCEPT !.ev = Append(@, e)]

\* buckets are 0-based in the code; bk is 1-based here
Bk(s, i) == s.bk[i + 1]
SetChain(s, i, c) == [s EXCEPT !.bk[i + 1].chain = c]
SetDirty(s, i, d) == [s EXCEPT !.bk[i + 1].dirty = d]

(* __cstl_hash_get_bucket: evaluate the function, abort when out of range.  *)
(* returns [m, b]                                                           *)
GetB(m, f, k, cnt) ==
    IF m.ab THEN [m |-> m, b |-> 0]
    ELSE IF cnt = 0 \/ f = 0 THEN [m |-> [m EXCEPT !.ab = TRUE], b |-> 0]   \* hash(k, 0) / NULL call: fatal
    ELSE LET r == H(f, k, cnt)
             m1 == IF f = 3 THEN m ELSE Ev(m, <<"h", f, k, cnt, r>>)
         IN IF InRange(r, cnt) THEN [m |-> m1, b |-> r]
            ELSE [m |-> [m1 EXCEPT !.ab = TRUE], b |-> 0]

(* cstl_clean_bucket *)
RECURSIVE Relocate(_, _)
Relocate(m, nodes) ==
    IF nodes = <<>> \/ m.ab THEN m
    ELSE LET e == Head(nodes)
             g == GetB(m, m.s.rhhash, KeyOf[e], m.s.rhcount)
         IN IF g.m.ab THEN g.m
            ELSE Relocate([g.m EXCEPT !.s = SetChain(@, g.b, <<e>> \o Bk(@, g.b).chain)], Tail(nodes))
Clean(m, i) ==
    IF m.ab \/ ~Bk(m.s, i).dirty THEN m
    ELSE LET nodes == Bk(m.s, i).chain
             m1 == Relocate([m EXCEPT !.s = SetChain(@, i, <<>>)], nodes)
         IN IF m1.ab THEN m1 ELSE [m1 EXCEPT !.s = SetDirty(@, i, FALSE)]

(* __cstl_hash_rehash(h, n) *)
RECURSIVE SkipClean(_)
SkipClean(s) == IF s.rhclean < s.count /\ ~Bk(s, s.rhclean).dirty
                THEN SkipClean([s EXCEPT !.rhclean = @ + 1]) ELSE s
RECURSIVE Sweep(_, _)
Sweep(m, n) == IF m.ab \/ ~(m.s.rhclean < m.s.count /\ n > 0) THEN m
               ELSE LET m1 == Clean(m, m.s.rhclean)
                    IN IF m1.ab THEN m1 ELSE Sweep([m1 EXCEPT !.s.rhclean = @ + 1], n - 1)
RehashN(m, n) ==
    IF m.ab THEN m ELSE
    LET m1 == Sweep([m EXCEPT !.s = SkipClean(@)], n)
    IN IF m1.ab THEN m1
       ELSE IF m1.s.rhclean >= m1.s.count
       THEN LET t == m1.s IN
            [m1 EXCEPT !.s = [t EXCEPT !.count = t.rhcount, !.hash = t.rhhash, !.pend = FALSE,
                                      !.rhhash = 0, !.rhcount = 0, !.rhclean = 0]]
       ELSE m1
\* cstl_hash_rehash
RehashAll(m) == IF m.s.pend THEN RehashN(m, MaxB + 2) ELSE m

(* cstl_hash_get_bucket: [m, b] *)
Keyed(m, k) ==
    LET g0 == GetB(m, m.s.hash, k, m.s.count)
    IN IF g0.m.ab \/ ~g0.m.s.pend THEN g0
       ELSE LET g1 == GetB(g0.m, g0.m.s.rhhash, k, g0.m.s.rhcount)
                m2 == RehashN(Clean(Clean(g1.m, g0.b), g1.b), 1)
            IN [m |-> m2, b |-> g1.b]

InSeq(seq, e) == \E i \in 1..Len(seq) : seq[i] = e
Remove(seq, e) == SelectSeq(seq, LAMBDA x : x # e)

(* ---- public operations on a machine; each returns a machine plus fields -- *)
InsertOp(s, e) ==
    LET g == Keyed(Mk(s), KeyOf[e])
    IN IF g.m.ab THEN g.m
       ELSE [g.m EXCEPT !.s = [SetChain(@, g.b, <<e>> \o Bk(@, g.b).chain) EXCEPT !.n = @ + 1]]

EraseOp(s, e) ==
    LET g == Keyed(Mk(s), KeyOf[e])
        c == Bk(g.m.s, g.b).chain
    IN IF g.m.ab THEN g.m
       ELSE IF InSeq(c, e) THEN [g.m EXCEPT !.s = [SetChain(@, g.b, Remove(c, e)) EXCEPT !.n = @ - 1]]
       ELSE g.m

\* find: mode 0 no visit function; 1 the visit function accepts element x only
\* (x = 0: nothing).  Offers the chain's nodes with the key in chain order.
RECURSIVE Offer(_, _, _, _, _)
Offer(m, nodes, k, mode, x) ==
    IF nodes = <<>> THEN [m |-> m, ret |-> 0]
    ELSE LET e == Head(nodes) IN
         IF KeyOf[e] # k THEN Offer(m, Tail(nodes), k, mode, x)
         ELSE IF mode = 0 THEN [m |-> m, ret |-> e]
         ELSE LET m1 == Ev(m, <<"v", e>>)
              IN IF e = x THEN [m |-> m1, ret |-> e] ELSE Offer(m1, Tail(nodes), k, mode, x)
FindOp(s, k, mode, x) ==
    LET g == Keyed(Mk(s), k)
    IN IF g.m.ab THEN [m |-> g.m, ret |-> 0]
       ELSE Offer(g.m, Bk(g.m.s, g.b).chain, k, mode, x)

\* allocation: realloc of the bucket array (ok = it succeeds)
SetCap(m, sz, ok) ==
    IF ok THEN [Ev(m, IF m.s.at THEN <<"realloc">> ELSE <<"alloc">>) EXCEPT !.s.at = TRUE, !.s.cap = sz]
    ELSE Ev(m, <<"allocfail">>)

ResizeOp(s, cnt, f, ok) ==
    LET m0 == Mk(s)
        m1 == IF cnt > s.cap THEN SetCap(m0, cnt, ok) ELSE m0
        s1 == m1.s
        curCount == IF FIXED /\ s1.pend THEN s1.rhcount ELSE s1.count
        curHash  == IF FIXED /\ s1.pend THEN s1.rhhash ELSE s1.hash
    IN IF ~(s1.at /\ cnt <= s1.cap /\ (cnt # curCount \/ (f # 0 /\ f # curHash))) THEN m1
       ELSE
       LET m2 == RehashAll(m1)
           s2 == m2.s
           \* flip the table-wide clean bit: every bucket's dirtiness toggles,
           \* buckets count..cnt-1 are initialised clean and empty
           s3 == [s2 EXCEPT !.bk = [i \in 1..MaxB |->
                       IF i - 1 >= s2.count /\ i - 1 < cnt THEN EmptyB
                       ELSE [s2.bk[i] EXCEPT !.dirty = ~@]]]
           nh == IF f # 0 THEN f ELSE IF s3.hash # 0 THEN s3.hash ELSE 3
           s4 == [s3 EXCEPT !.rhhash = nh, !.rhcount = cnt, !.rhclean = 0, !.pend = TRUE]
           s5 == IF s4.hash = 0
                 THEN [s4 EXCEPT !.hash = nh, !.count = cnt, !.pend = FALSE, !.rhhash = 0,
                                 !.rhcount = 0, !.rhclean = 0]
                 ELSE s4
       IN IF m2.ab THEN m2 ELSE [m2 EXCEPT !.s = s5]

ShrinkOp(s, ok) ==
    LET cnt == IF s.pend THEN s.rhcount ELSE s.count
    IN IF s.cap > cnt
       THEN LET m1 == RehashAll(Mk(s))
            IN IF m1.ab THEN m1
               ELSE IF ok THEN [Ev(m1, <<"realloc">>) EXCEPT !.s.cap = m1.s.count]
               ELSE Ev(m1, <<"allocfail">>)
       ELSE Mk(s)

RehashOp(s) == RehashAll(Mk(s))

LiveRange(s) == IF s.pend /\ s.rhcount > s.count THEN s.rhcount ELSE s.count
WalkRange(s) == IF FIXED THEN LiveRange(s) ELSE s.count
RECURSIVE Chains(_, _, _)
Chains(s, i, hi) == IF i >= hi THEN <<>> ELSE Bk(s, i).chain \o Chains(s, i + 1, hi)

\* what the driver's visit function returns at its stop-th call: any non-zero value must stop the walk and
\* come back unchanged, so the values vary in sign and size (engine.h e_stopval)
StopVal(k) == CASE k % 3 = 1 -> 100 + k [] k % 3 = 2 -> 0 - (100 + k) [] OTHER -> IF k % 2 = 1 THEN 1 ELSE 0 - 1
\* the driver's visit function returns 100+stop at its stop-th call
Cut(w, stop) == IF stop > 0 /\ stop <= Len(w) THEN [w |-> SubSeq(w, 1, stop), ret |-> StopVal(stop)]
                ELSE [w |-> w, ret |-> 0]
Visits(w) == [i \in 1..Len(w) |-> <<"v", w[i]>>]

\* cstl_hash_foreach_const: no rehash first; walks bucket.count buckets (pinned)
ForeachConstOp(s, stop) ==
    LET c == Cut(Chains(s, 0, WalkRange(s)), stop)
    IN [m |-> [Mk(s) EXCEPT !.ev = Visits(c.w)], ret |-> c.ret]

\* cstl_hash_foreach: force the rehash, then walk; with er the callback erases
\* (and scribbles over) every element it is handed.  No rehash is pending
\* during the walk, so the nested erase evaluates the hash once and unlinks.
RECURSIVE EraseAll(_, _)
EraseAll(m, w) ==
    IF w = <<>> \/ m.ab THEN m
    ELSE LET e == Head(w)
             m1 == Ev(m, <<"v", e>>)
             g == GetB(m1, m1.s.hash, KeyOf[e], m1.s.count)
             m2 == IF g.m.ab THEN g.m
                   ELSE [g.m EXCEPT !.s = [SetChain(@, g.b, Remove(Bk(@, g.b).chain, e)) EXCEPT !.n = @ - 1]]
         IN EraseAll(m2, Tail(w))
ForeachOp(s, stop, er) ==
    LET m1 == RehashAll(Mk(s))
        c == Cut(Chains(m1.s, 0, m1.s.count), stop)
    IN IF m1.ab THEN [m |-> m1, ret |-> 0]
       ELSE IF er THEN [m |-> EraseAll(m1, c.w), ret |-> c.ret]
       ELSE [m |-> [m1 EXCEPT !.ev = @ \o Visits(c.w)], ret |-> c.ret]

ClearOp(s, withcb) ==
    LET w == IF withcb THEN Chains(s, 0, WalkRange(s)) ELSE <<>>
        evs == [i \in 1..Len(w) |-> <<"c", w[i]>>] \o (IF s.at THEN << <<"free">> >> ELSE <<>>)
    IN [Mk([Fresh EXCEPT !.hash = IF FIXED THEN 0 ELSE s.hash]) EXCEPT !.ev = evs]

Live(s) == LET all == Chains(s, 0, LiveRange(s)) IN {all[i] : i \in 1..Len(all)}
TargetCount(s) == IF s.pend THEN s.rhcount ELSE s.count
TargetHash(s) == IF s.pend THEN s.rhhash ELSE s.hash

\* canonical form: buckets outside the live range are garbage
Canon(s) == [s EXCEPT !.bk = [i \in 1..MaxB |-> IF i - 1 < LiveRange(s) THEN s.bk[i] ELSE EmptyB]]

(***************************************************************************)
(* Contract operators (what the properties state; used by L0 and by L2)    *)
(***************************************************************************)
SeqSet(q) == {q[i] : i \in 1..Len(q)}
NoDup(q) == \A i, j \in 1..Len(q) : i # j => q[i] # q[j]
IsPermOf(q, S) == NoDup(q) /\ SeqSet(q) = S
EvKind(ev, kd) == SelectSeq(ev, LAMBDA e : e[1] = kd)
EvIds(ev, kd) == LET q == EvKind(ev, kd) IN [i \in 1..Len(q) |-> q[i][2]]
HCalls(ev) == EvKind(ev, "h")

\* structural: every live element sits in exactly one chain of the live range,
\* n counts them, and every chain a lookup can consult holds the right keys:
\*   clean bucket b of the target geometry holds only keys with Htarget(k) = b
\*   dirty bucket b (old geometry) holds only keys hashed there by either geometry
WellFormed(s) ==
    LET all == Chains(s, 0, LiveRange(s)) IN
    /\ NoDup(all)
    /\ s.n = Len(all)
\* representation invariants of the concrete model (L0 only; not part of any contract)
ReprOK(s) ==
    /\ s.at => (s.cap >= LiveRange(s))
    /\ ~s.pend => \A i \in 0..(s.count - 1) : ~Bk(s, i).dirty
    /\ s.at => s.count > 0

\* C17 fail-stop: the operation aborted iff some hash call it made was out of range
FailStop(ev, ab) ==
    LET hc == HCalls(ev) IN
    ab <=> \E i \in 1..Len(hc) : ~InRange(hc[i][5], hc[i][4])

\* C19: a keyed op during a pending rehash relocates at most three buckets and
\* advances the sweep (or finishes)
DirtyCount(s) == Cardinality({i \in 0..(MaxB - 1) : i < LiveRange(s) /\ Bk(s, i).dirty})
KeyedWork(s, t) == \/ ~s.pend
                   \/ /\ DirtyCount(s) - DirtyCount(t) <= 3
                      /\ (~t.pend \/ t.rhclean > s.rhclean)
\* C19: when no rehash is pending before the op, it consults the function once,
\* with the table size and function most recently requested
OneCall(s, k, ev) ==
    (~s.pend /\ s.hash # 3) => HCalls(ev) = << <<"h", s.hash, k, s.count, H(s.hash, k, s.count)>> >>

\* C03 find: offered elements are distinct live elements with the key; the
\* accepted one is returned, otherwise everything with the key was offered
FindContract(live, k, mode, x, ev, ret) ==
    LET offered == EvIds(ev, "v")
        withKey == {e \in live : KeyOf[e] = k}
    IN /\ NoDup(offered) /\ SeqSet(offered) \subseteq withKey
       /\ IF mode = 0 THEN /\ offered = <<>>
                           /\ (ret = 0 <=> withKey = {}) /\ (ret # 0 => ret \in withKey)
          ELSE IF x \in withKey THEN ret = x /\ offered # <<>> /\ offered[Len(offered)] = x
          ELSE ret = 0 /\ SeqSet(offered) = withKey
\* C04 enumeration
WalkContract(live, stop, ev, ret) ==
    LET vs == EvIds(ev, "v") IN
    /\ NoDup(vs) /\ SeqSet(vs) \subseteq live
    /\ IF stop > 0 /\ Len(vs) >= stop THEN Len(vs) = stop /\ ret = StopVal(stop)
       ELSE ret = 0 /\ SeqSet(vs) = live
ClearContract(live, withcb, ev) ==
    withcb => IsPermOf(EvIds(ev, "c"), live)
=============================================================================
