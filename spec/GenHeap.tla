------------------------------- MODULE GenHeap -------------------------------
(* Behaviours out of TLC for the heap (see GenTree): push / pop / clear chosen by *)
(* the simulator, printed as JSON and replayed into src/heap.c.                   *)
EXTENDS Heap, Json
CONSTANT GenDepth
VARIABLE hist
GInit == Init /\ hist = <<>>
GNext == \/ \E n \in Nodes : DoPush(n) /\ hist' = Append(hist, [op |-> "push", n |-> n])
         \/ DoPop /\ hist' = Append(hist, [op |-> "pop"])
         \/ DoClear /\ st.size > 4 /\ hist' = Append(hist, [op |-> "clear"])
GSpec == GInit /\ [][GNext]_<<vars, hist>>
Emit == IF Len(hist) < GenDepth THEN TRUE ELSE PrintT(ToJson(hist))
Bound == Len(hist) <= GenDepth
=============================================================================
