------------------------------ MODULE TraceSort ------------------------------
(* Trace validation for the sort driver (real src/array.c, src/vector.c).        *)
(*   L1: SortOps predicts the final array and the exact sequence of compare and  *)
(*       swap calls (the pivot draws of the randomised variant are logged).      *)
(*   L2: C11: same elements (byte-identical, by id), non-decreasing order,       *)
(*       every callback argument inside the array, guard bytes around array and  *)
(*       scratch element (also the vector's own allocation) intact; search /     *)
(*       find / reverse as stated.                                               *)
EXTENDS SortOps, Json, IOUtils
CONSTANT Level
Recs == ndJsonDeserialize(IOEnv.TRACE)
FullEv(rec) == rec.nev = Len(rec.ev)
StepOK(rec) ==
    IF rec.out # "ok" THEN FALSE
    ELSE CASE rec.op = "sort" -> LET r == SortOp(rec.A, rec.algo, rec.dr) IN
                                   ~r.st.bad /\ r.st.A = rec.A1 /\ (FullEv(rec) => r.st.ev = rec.ev) /\ rec.nev = Len(r.st.ev)
           [] rec.op = "search" -> LET r == SearchOp(rec.A, rec.x) IN ~r.st.bad /\ r.ret = rec.ret /\ r.st.ev = rec.ev /\ rec.A1 = rec.A
           [] rec.op = "find" -> LET r == FindOp(rec.A, rec.x) IN r.ret = rec.ret /\ r.st.ev = rec.ev /\ rec.A1 = rec.A
           [] rec.op = "reverse" -> LET r == ReverseOp(rec.A) IN ~r.bad /\ r.A = rec.A1 /\ r.ev = rec.ev
           [] OTHER -> FALSE
IdsOK(rec) == rec.ids = <<>> \/
              (/\ Len(rec.ids) = Len(rec.A)
               /\ \A k \in 1..Len(rec.ids) : rec.ids[k] \in 1..Len(rec.A) /\ rec.A[rec.ids[k]] = rec.A1[k]
               /\ \A j, k \in 1..Len(rec.ids) : j # k => rec.ids[j] # rec.ids[k])
C11OK(rec) ==
    /\ rec.out = "ok" /\ rec.guards /\ rec.hguards /\ rec.scratch
    /\ (FullEv(rec) => EvInRange(rec.ev, Len(rec.A)))
    /\ CASE rec.op = "sort" -> IsPerm(rec.A1, rec.A) /\ Sorted(rec.A1) /\ IdsOK(rec)
         [] rec.op = "search" -> rec.A1 = rec.A /\ SearchContract(rec.A, rec.x, rec.ret)
         [] rec.op = "find" -> rec.A1 = rec.A /\ FindContract(rec.A, rec.x, rec.ret)
         [] rec.op = "reverse" -> rec.A1 = Rev(rec.A) /\ IdsOK(rec)
         [] OTHER -> FALSE
VARIABLE i
Judge(rec) ==
    /\ (IF Level # 2 \/ C11OK(rec) THEN TRUE ELSE PrintT(<<"L2FAIL", "C11", rec.id>>))
    /\ (IF Level # 1 \/ StepOK(rec) THEN TRUE ELSE PrintT(<<"L1DRIFT", "sort", rec.id>>))
TInit == i = 1
TNext == i < Len(Recs) /\ i' = i + 1 /\ Judge(Recs[i + 1])
TSpec == TInit /\ [][TNext]_i
Done == i = Len(Recs) => PrintT(<<"TRACE-END", i>>)
=============================================================================
