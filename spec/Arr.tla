--------------------------------- MODULE Arr ---------------------------------
(***************************************************************************)
(* L0 for the array views: alloc / set / slice (also in place) / unslice / *)
(* reset / release / at / data / size over NA objects and two external     *)
(* buffers, with bounds from {0..MaxN+1, SIZE_MAX, SIZE_MAX-1}, element    *)
(* counts whose byte size cannot be represented, and failing allocations,  *)
(* in every reachable state; `ok` records the C14 contract of each step.   *)
(***************************************************************************)
EXTENDS ArrOps
CONSTANTS MaxN, WithFaults
VARIABLES st, ok
vars == <<st, ok>>
Init == st = Fresh /\ ok = TRUE
Huge == {[k |-> "max", n |-> d] : d \in 0..1}
Bounds == {N(x) : x \in 0..(MaxN + 1)} \cup Huge
OKs == IF WithFaults THEN {<<TRUE, TRUE>>, <<FALSE, TRUE>>, <<TRUE, FALSE>>} ELSE {<<TRUE, TRUE>>}
OpSet ==
    {[op |-> "alloc", a |-> a, nm |-> N(n), sz |-> 4, ok |-> k] : a \in OBJ, n \in {0, 2, MaxN}, k \in OKs}
    \cup {[op |-> "alloc", a |-> a, nm |-> h, sz |-> z, ok |-> <<TRUE, TRUE>>] : a \in OBJ, h \in Huge, z \in {1, 4}}
    \cup {[op |-> "set", a |-> a, e |-> e, enm |-> MaxN, sz |-> 4, ok |-> k] : a \in OBJ, e \in 1..2, k \in OKs}
    \cup {[op |-> "slice", a |-> a, beg |-> b, end |-> e, s |-> s] : a \in OBJ, s \in OBJ, b \in Bounds, e \in Bounds}
    \cup {[op |-> "unslice", s |-> s, a |-> a] : s \in OBJ, a \in OBJ}
    \cup {[op |-> "reset", a |-> a] : a \in OBJ} \cup {[op |-> "release", a |-> a, nob |-> x] : a \in OBJ, x \in BOOLEAN}   \* nob: NULL out-parameter (documented as allowed)
    \cup {[op |-> "at", a |-> a, i |-> i] : a \in OBJ, i \in Bounds}
    \cup {[op |-> "data", a |-> a] : a \in OBJ} \cup {[op |-> "size", a |-> a] : a \in OBJ}
Tgt(pre, s) == [a \in OBJ |-> IF s.obj[a].t > Len(pre.desc) THEN NEWB ELSE s.obj[a].t]
Step(o) == LET r == Apply(st, o)
               post == Canon(r.m.s) IN
           /\ st' = IF r.m.ab THEN st ELSE post
           /\ ok' = Contract(o, st, post, 2 * Len(post.desc), Tgt(st, r.m.s), IF r.m.ab THEN "abort" ELSE "ok", r.m.ev, r.ret)
Next == \E o \in OpSet : Step(o)
Spec == Init /\ [][Next]_vars
InvOK == ok
InvView == ViewOK(st)
=============================================================================
