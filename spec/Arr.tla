--------------------------------- MODULE Arr ---------------------------------
(***************************************************************************)
(* L0 for the array views: alloc / set / slice (also in place) / unslice / *)
(* reset / release / at / data / size over NA objects and two external     *)
(* buffers, with bounds from {0..MaxN+1, SIZE_MAX, SIZE_MAX-1}, element    *)
(* counts whose byte size cannot be represented, and failing allocations,  *)
(* in every reachable state; `ok` records the C14 contract of each step.   *)
(***************************************************************************)
EXTENDS ArrOps
CONSTANTS MaxN, WithFaults
VARIABLES st, ok
vars == <<st, ok>>
Init == st = Fresh /\ ok = TRUE
OpSet == OpSetF(MaxN, WithFaults)
Tgt(pre, s) == [a \in OBJ |-> IF s.obj[a].t > Len(pre.desc) THEN NEWB ELSE s.obj[a].t]
Step(o) == LET r == Apply(st, o)
               post == Canon(r.m.s) IN
           /\ st' = IF r.m.ab THEN st ELSE post
           /\ ok' = Contract(o, st, post, 2 * Len(post.desc), Tgt(st, r.m.s), IF r.m.ab THEN "abort" ELSE "ok", r.m.ev, r.ret)
Next == \E o \in OpSet : Step(o)
Spec == Init /\ [][Next]_vars
InvOK == ok
InvView == ViewOK(st)
=============================================================================
