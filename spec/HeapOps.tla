------------------------------- MODULE HeapOps -------------------------------
(***************************************************************************)
(* Link-level model of src/heap.c (a binary max-heap kept as a linked      *)
(* complete tree over bintree nodes) and the contract of C07 (and the heap *)
(* part of C15).  State: [root, p, l, r, size] over the pool 1..N, 0=NULL. *)
(* cstl_fls is modelled by its contract (index of the highest set bit) and *)
(* the real function is checked against that contract separately.          *)
(***************************************************************************)
EXTENDS Naturals, Integers, Sequences, FiniteSets, TLC

CONSTANTS N, Prio
Nodes == 1..N
ZeroF == [n \in Nodes |-> 0]
Empty == [root |-> 0, p |-> ZeroF, l |-> ZeroF, r |-> ZeroF, size |-> 0]

SetP(s, n, v) == IF n = 0 THEN s ELSE [s EXCEPT !.p[n] = v]
Cmp(a, b) == Prio[a] - Prio[b]

\* contract of cstl_fls for x > 0
Fls(x) == CHOOSE i \in 0..30 : 2 ^ i <= x /\ x < 2 ^ (i + 1)

(* cstl_heap_find(h, id): follow the bits of the 1-based slot number below its top bit *)
RECURSIVE FindBits(_, _, _, _)
FindBits(s, p, loc, b) ==
    IF p = 0 \/ b = 0 THEN p
    ELSE FindBits(s, IF (loc \div b) % 2 = 0 THEN s.l[p] ELSE s.r[p], loc, b \div 2)
HeapFind(s, id) == LET loc == id + 1 IN FindBits(s, s.root, loc, (2 ^ Fls(loc)) \div 2)

(* cstl_heap_promote_child(h, c): swap c with its parent by relinking all neighbours *)
Promote(s, c) ==
    LET p  == s.p[c]
        pp == s.p[p]
        s1 == IF pp = 0 THEN [s EXCEPT !.root = c]
              ELSE IF s.l[pp] = p THEN [s EXCEPT !.l[pp] = c] ELSE [s EXCEPT !.r[pp] = c]
        s2 == SetP(SetP(s1, s1.l[c], p), s1.r[c], p)
        s3 == SetP(SetP(s2, s2.r[p], c), s2.l[p], c)
        s4 == [s3 EXCEPT !.p[c] = s3.p[p]]
        s5 == [s4 EXCEPT !.p[p] = c]
    IN IF s5.l[p] = c
       THEN [s5 EXCEPT !.l[p] = s5.l[c], !.l[c] = p, !.r[c] = s5.r[p], !.r[p] = s5.r[c]]
       ELSE [s5 EXCEPT !.r[p] = s5.r[c], !.r[c] = p, !.l[c] = s5.l[p], !.l[p] = s5.l[c]]

RECURSIVE SiftUp(_, _, _)
SiftUp(s, n, fuel) == IF fuel > 0 /\ s.p[n] # 0 /\ Cmp(n, s.p[n]) > 0 THEN SiftUp(Promote(s, n), n, fuel - 1) ELSE s

Push(s, n) ==
    LET s0 == [s EXCEPT !.l[n] = 0, !.r[n] = 0] IN
    IF s0.root = 0 THEN [s0 EXCEPT !.p[n] = 0, !.root = n, !.size = @ + 1]
    ELSE LET par == HeapFind(s0, (s0.size - 1) \div 2)
             s1 == [s0 EXCEPT !.p[n] = par]
             s2 == IF s1.size % 2 = 0 THEN [s1 EXCEPT !.r[par] = n] ELSE [s1 EXCEPT !.l[par] = n]
         IN [SiftUp(s2, n, N + 1) EXCEPT !.size = @ + 1]

Get(s) == s.root

RECURSIVE SiftDown(_, _, _)
SiftDown(s, n, fuel) ==
    LET c1 == IF s.l[n] # 0 /\ Cmp(s.l[n], n) > 0 THEN s.l[n] ELSE n
        c  == IF s.r[n] # 0 /\ Cmp(s.r[n], c1) > 0 THEN s.r[n] ELSE c1
    IN IF c = n \/ fuel = 0 THEN s ELSE SiftDown(Promote(s, c), n, fuel - 1)

Pop(s) ==
    IF s.root = 0 THEN [s |-> s, ret |-> 0]
    ELSE LET res == s.root
             n == HeapFind(s, s.size - 1)
             np == s.p[n]
             s1 == IF np = 0 THEN [s EXCEPT !.root = 0]
                   ELSE IF s.l[np] = n THEN [s EXCEPT !.l[np] = 0] ELSE [s EXCEPT !.r[np] = 0]
             s2 == [s1 EXCEPT !.size = @ - 1]
         IN IF s2.root = 0 THEN [s |-> s2, ret |-> res]
            ELSE LET rt == s2.root
                     s3 == [s2 EXCEPT !.p[n] = s2.p[rt], !.l[n] = s2.l[rt], !.r[n] = s2.r[rt]]
                     s4 == SetP(SetP(s3, s3.l[n], n), s3.r[n], n)
                     s5 == [s4 EXCEPT !.root = n]
                 IN [s |-> SiftDown(s5, n, N + 1), ret |-> res]

\* cstl_heap_clear = cstl_bintree_clear: callback at the LEAF / POST visit of a forward walk
RECURSIVE PostOrder(_, _)
PostOrder(s, n) == IF n = 0 THEN <<>> ELSE PostOrder(s, s.l[n]) \o PostOrder(s, s.r[n]) \o <<n>>
ClearOp(s) == [ev |-> PostOrder(s, s.root),
               s |-> IF s.root = 0 THEN s ELSE [s EXCEPT !.root = 0, !.size = 0]]

(* ---- views ---- *)
RECURSIVE Sub(_, _)
Sub(s, n) == IF n = 0 THEN {} ELSE {n} \cup Sub(s, s.l[n]) \cup Sub(s, s.r[n])
Members(s) == Sub(s, s.root)
Canon(s) == LET M == Members(s)
                Z(f) == [n \in Nodes |-> IF n \in M THEN f[n] ELSE 0]
            IN [root |-> s.root, p |-> Z(s.p), l |-> Z(s.l), r |-> Z(s.r), size |-> s.size]
\* level-order slot numbers (root = 1, children 2k and 2k+1)
RECURSIVE Slots(_, _, _)
Slots(s, n, k) == IF n = 0 THEN {} ELSE {k} \cup Slots(s, s.l[n], 2 * k) \cup Slots(s, s.r[n], 2 * k + 1)
RECURSIVE Count(_, _)
Count(s, n) == IF n = 0 THEN 0 ELSE 1 + Count(s, s.l[n]) + Count(s, s.r[n])

(***************************************************************************)
(* Contract (C07)                                                          *)
(***************************************************************************)
HeapOK(s) ==
    /\ Count(s, s.root) = s.size                       \* no node twice, size agrees
    /\ Cardinality(Members(s)) = s.size
    /\ Slots(s, s.root, 1) = 1..s.size                 \* complete, last level filled from the left
    /\ (s.root # 0 => s.p[s.root] = 0)
    /\ \A n \in Members(s) :
         /\ (s.l[n] # 0 => s.p[s.l[n]] = n /\ Prio[n] >= Prio[s.l[n]])
         /\ (s.r[n] # 0 => s.p[s.r[n]] = n /\ Prio[n] >= Prio[s.r[n]])
IsMax(M, e) == e \in M /\ \A x \in M : Prio[e] >= Prio[x]
TopContract(M, ret) == IF M = {} THEN ret = 0 ELSE IsMax(M, ret)
PushContract(Mpre, Mpost, n) == Mpost = Mpre \cup {n}
PopContract(Mpre, Mpost, ret) == TopContract(Mpre, ret) /\ Mpost = Mpre \ {ret}
SeqSet(q) == {q[i] : i \in 1..Len(q)}
NoDup(q) == \A i, j \in 1..Len(q) : i # j => q[i] # q[j]
ClearContract(M, ev) == NoDup(ev) /\ SeqSet(ev) = M
=============================================================================
