------------------------------- MODULE VecOps -------------------------------
(***************************************************************************)
(* Model of src/vector.c and the contract of C09.                          *)
(* State of one vector:                                                    *)
(*   base  storage allocated?      blk   size of that allocation in bytes  *)
(*   count, cap                    tags  contents of slots 0..count-1      *)
(* Constants: Esz (element size), HasX (0: no callbacks, 1: constructor     *)
(* and destructor, 2: constructor only, 3: destructor only).               *)
(* Requested sizes are *terms* (SizeTerm): [k |-> "n", n |-> small value], *)
(* [k |-> "pow", n |-> e] = 2^e (61..63: indexes whose byte offset wraps),  *)
(* [k |-> "max", n |-> d] = SIZE_MAX - d, [k |-> "maxdiv", n |-> d] =      *)
(* floor(SIZE_MAX / Esz) + d.  The model never does 64-bit arithmetic: it  *)
(* decides by closed-form rules whether (t+1)*Esz is representable, and a  *)
(* representable but absurd request is one the allocator refuses.          *)
(* Events: <<"alloc">>, <<"realloc">>, <<"allocfail">>, <<"free">>,        *)
(* <<"ctor", slot>>, <<"dtor", slot>>.  New slots get the tag slot+1 (the  *)
(* driver writes it, or the constructor does).                             *)
(***************************************************************************)
EXTENDS Naturals, Integers, Sequences, FiniteSets, TLC
CONSTANTS Esz, HasX
HasC == HasX \in {1, 2}
HasD == HasX \in {1, 3}

Pow2(k) == CASE k = 0 -> 1 [] k = 1 -> 2 [] k = 2 -> 4 [] k = 3 -> 8 [] k = 4 -> 16 [] k = 5 -> 32 [] k = 6 -> 64 [] OTHER -> 128
Fresh == [base |-> FALSE, blk |-> 0, count |-> 0, cap |-> 0, tags |-> <<>>]
Mk(s) == [s |-> s, ev |-> <<>>, ab |-> FALSE]
Ev(m, e) == [m EXCEPT !.ev = Append(@, e)]

Small(t) == t.k = "n"
\* floor(log2 x) for the element sizes in use
Log2(x) == CHOOSE k \in 0..6 : Pow2(k) <= x /\ x < Pow2(k + 1)
\* is (t+1)*Esz representable in size_t ?
Representable(t) ==
    CASE t.k = "n" -> TRUE
      [] t.k = "max" -> Esz = 1 /\ t.n >= 1
      [] t.k = "maxdiv" -> t.n <= -1
      [] t.k = "pow" -> IF Esz \in {1, 2, 4, 8, 16, 32, 64} THEN t.n + Log2(Esz) <= 63 ELSE t.n + Log2(Esz) + 1 <= 64

(* cstl_vector_set_capacity(v, sz) for a small sz; ok = the allocator succeeds *)
SetCapSmall(m, sz, ok) ==
    IF ok THEN [Ev(m, IF m.s.base THEN <<"realloc">> ELSE <<"alloc">>)
                  EXCEPT !.s.base = TRUE, !.s.blk = (sz + 1) * Esz, !.s.cap = sz]
    ELSE Ev(m, <<"allocfail">>)
\* for a huge term: the byte count is either unrepresentable (no allocator
\* call at all) or representable and refused
SetCapHuge(m, t) == IF Representable(t) THEN Ev(m, <<"allocfail">>) ELSE m

ReserveM(m, t, ok) ==
    IF Small(t) THEN (IF t.n > m.s.cap THEN SetCapSmall(m, t.n, ok) ELSE m)
    ELSE SetCapHuge(m, t)
ReserveOp(s, t, ok) == ReserveM(Mk(s), t, ok)

ShrinkOp(s, ok) == IF s.cap > s.count THEN SetCapSmall(Mk(s), s.count, ok) ELSE Mk(s)

RECURSIVE Grow(_, _)
Grow(m, sz) == IF m.s.count >= sz THEN m
               ELSE LET i == m.s.count
                        m1 == IF HasC THEN Ev(m, <<"ctor", i>>) ELSE m
                    IN Grow([m1 EXCEPT !.s.count = i + 1, !.s.tags = Append(@, i + 1)], sz)
RECURSIVE Cut(_, _)
Cut(m, sz) == IF m.s.count <= sz THEN m
              ELSE LET i == m.s.count - 1
                       m1 == IF HasD THEN Ev(m, <<"dtor", i>>) ELSE m
                   IN Cut([m1 EXCEPT !.s.count = i, !.s.tags = SubSeq(@, 1, i)], sz)
ResizeM(m0, t, ok) ==
    LET m == ReserveM(m0, t, ok) IN
    IF ~Small(t) \/ m.s.cap < t.n THEN [m EXCEPT !.ab = TRUE]
    ELSE IF m.s.count < t.n THEN Grow(m, t.n) ELSE Cut(m, t.n)
ResizeOp(s, t, ok) == ResizeM(Mk(s), t, ok)

ClearOp(s) == LET m == Cut(Mk(s), 0)
              IN [(IF s.base THEN Ev(m, <<"free">>) ELSE m) EXCEPT !.s = Fresh]

\* cstl_vector_at: abort iff index >= count; otherwise the slot's address
AtOp(s, t) == IF Small(t) /\ t.n < s.count THEN [ab |-> FALSE, off |-> t.n * Esz]
              ELSE [ab |-> TRUE, off |-> 0]

Rev(q) == [i \in 1..Len(q) |-> q[Len(q) + 1 - i]]
RECURSIVE InsSorted(_, _)
InsSorted(q, x) == IF q = <<>> THEN <<x>> ELSE IF x <= Head(q) THEN <<x>> \o q ELSE <<Head(q)>> \o InsSorted(Tail(q), x)
RECURSIVE SortTags(_)
SortTags(q) == IF q = <<>> THEN <<>> ELSE InsSorted(SortTags(Tail(q)), Head(q))
SortOp(s) == [s EXCEPT !.tags = SortTags(@)]
ReverseOp(s) == [s EXCEPT !.tags = Rev(@)]

(***************************************************************************)
(* Contract (C09)                                                          *)
(***************************************************************************)
\* on any logged state (count, cap, blk are -1 when the real value is >= 2^30)
StorageOK(s) ==
    /\ s.count >= 0 /\ s.cap >= 0
    /\ s.count <= s.cap
    /\ Len(s.tags) = s.count
    /\ IF s.base THEN s.blk >= (s.cap + 1) * Esz ELSE s.cap = 0
Prefix(a, b, n) == \A i \in 1..n : a[i] = b[i]
Min(a, b) == IF a < b THEN a ELSE b
\* elements that stay in range keep their bytes
KeepOK(pre, post) == LET n == Min(pre.count, post.count) IN
                     Len(pre.tags) >= n /\ Len(post.tags) >= n /\ Prefix(pre.tags, post.tags, n)
EvKind(ev, kd) == SelectSeq(ev, LAMBDA e : e[1] = kd)
Slots(ev, kd) == LET q == EvKind(ev, kd) IN [i \in 1..Len(q) |-> q[i][2]]
\* constructor once per slot entering [0,count), destructor once per slot leaving
XtorOK(pre, post, ev) ==
    LET c == Slots(ev, "ctor")  d == Slots(ev, "dtor") IN
    /\ \A i, j \in 1..Len(c) : i # j => c[i] # c[j]
    /\ \A i, j \in 1..Len(d) : i # j => d[i] # d[j]
    \* either callback may be configured without the other
    /\ {c[i] : i \in 1..Len(c)} = (IF HasC THEN {x \in 0..(post.count - 1) : x >= pre.count} ELSE {})
    /\ {d[i] : i \in 1..Len(d)} = (IF HasD THEN {x \in 0..(pre.count - 1) : x >= post.count} ELSE {})
IsPerm(a, b) == Len(a) = Len(b) /\ \A x \in {a[i] : i \in 1..Len(a)} \cup {b[i] : i \in 1..Len(b)} :
                   Cardinality({i \in 1..Len(a) : a[i] = x}) = Cardinality({i \in 1..Len(b) : b[i] = x})
Sorted(q) == \A i \in 1..(Len(q) - 1) : q[i] <= q[i + 1]
=============================================================================
