------------------------------ MODULE TraceBig ------------------------------
(***************************************************************************)
(* Contracts of C01/C02, C07, C08, C12, C13 and C15 on containers of 2^16  *)
(* and more elements, where closures and link-level traces are out of      *)
(* reach.  One record per scenario (harness/drv_big.c) carries the         *)
(* sequences the contract talks about; TLC judges them here.               *)
(*   heapdrain : n pushes then n pops                                      *)
(*   slistsort / dlistsort : n push_backs, sort, walk, push_back, reverse  *)
(*   rbbig / bstbig : n ascending inserts, erase every other key, walk,    *)
(*                    clear                                                 *)
(*   mapbig : n inserts, duplicate inserts, find, erase, clear, reuse      *)
(*   hashbig : n inserts while the table doubles, find, walk, erase, shrink *)
(***************************************************************************)
EXTENDS Naturals, Integers, Sequences, FiniteSets, TLC, Json, IOUtils
Recs == ndJsonDeserialize(IOEnv.TRACE)

CountOf(q, v) == Cardinality({i \in 1..Len(q) : q[i] = v})
SameBag(a, b, vals) == Len(a) = Len(b) /\ \A v \in vals : CountOf(a, v) = CountOf(b, v)
Distinct(q) == Cardinality({q[i] : i \in 1..Len(q)}) = Len(q)
NonIncr(q) == \A i \in 1..(Len(q) - 1) : q[i] >= q[i + 1]
NonDecr(q) == \A i \in 1..(Len(q) - 1) : q[i] <= q[i + 1]

\* C07: every pop hands out an element that was pushed and is still in, maximal among those left; the tree is
\* complete at every size checked (all 2^k-1, 2^k, 2^k+1 on the way up and down); NULL on the empty heap
HeapOK(r) ==
    /\ r.out = "ok" /\ r.priv
    /\ Len(r.pushed) = r.n /\ Len(r.popped) = r.n /\ Len(r.ids) = r.n
    /\ NonIncr(r.popped)
    /\ SameBag(r.pushed, r.popped, 0..9)
    /\ Distinct(r.ids) /\ \A i \in 1..r.n : r.ids[i] \in 1..r.n /\ r.pushed[r.ids[i]] = r.popped[i]
    /\ r.complete /\ r.sizes /\ r.emptynull /\ r.shapes > 0

\* C12 / C13: sort yields an ordered permutation of the same elements, size and both ends agree, push_back appends
\* after the true last element also right after a sort, reverse mirrors
ListOK(r) ==
    /\ r.out = "ok" /\ r.priv
    /\ r.size = r.n /\ r.walked = r.n /\ Len(r.after) = r.n /\ Len(r.ids) = r.n
    /\ NonDecr(r.after)
    /\ SameBag(r.before, r.after, 0..15)
    /\ Distinct(r.ids) /\ \A i \in 1..r.n : r.ids[i] \in 1..r.n /\ r.before[r.ids[i]] = r.after[i]
    /\ r.size2 = r.n + 1 /\ r.backid = r.n + 1 /\ r.frontid = r.n + 1
    /\ Len(r.rev) = r.n /\ \A i \in 1..r.n : r.rev[i] = r.ids[r.n + 1 - i]

RECURSIVE FloorLog2(_)
FloorLog2(x) == IF x <= 1 THEN 0 ELSE 1 + FloorLog2(x \div 2)
RECURSIVE Pow2(_)
Pow2(k) == IF k = 0 THEN 1 ELSE 2 * Pow2(k - 1)
\* h <= 2*log2(n+1), in integers: h <= 2L, or h = 2L+1 and n+1 >= sqrt(2) * 2^L (L = floor(log2(n+1)))
HeightOK(h, n) == LET L == FloorLog2(n + 1) IN
                  h <= 2 * L \/ (h = 2 * L + 1 /\ L >= 10 /\ (n + 1) \div Pow2(L - 10) >= 1449)
\* C01 / C02 / C15
TreeOK(r, rb) ==
    /\ r.out = "ok" /\ r.priv
    /\ r.size = r.n /\ r.found = r.probes
    /\ r.visited1 = r.n /\ r.ordered1 /\ r.cleared1 = r.n /\ r.once1 /\ r.size1b = 0     \* as the ascending inserts left it
    /\ r.erased = r.n \div 2 /\ r.size2 = r.n - r.erased                                  \* reused, every other key erased
    /\ r.visited = r.size2 /\ r.ordered
    /\ r.cleared = r.size2 /\ r.once /\ r.size3 = 0
    /\ rb => (HeightOK(r.hmax, r.n) /\ HeightOK(r.hmax2, r.size2))
\* C08 / C15
MapOK(r) ==
    /\ r.out = "ok" /\ r.priv
    /\ r.ins0 = r.n /\ r.dup1 = r.dups /\ r.size = r.n /\ r.found = r.probes
    /\ r.cleared1 = r.n /\ r.once1 /\ r.size2 = 0              \* cleared as the ascending inserts left it
    /\ r.erased > 0 /\ r.size3 = r.n - r.erased                 \* reused, some entries erased
    /\ r.cleared = r.size3 /\ r.once /\ r.size4 = 0

\* C03 / C04 / C19 on a table grown by doubling through 13 and more incremental rehashes: everything inserted is
\* found, nothing else, each walk and the final clear see every live element exactly once, erased elements are
\* gone, every rehash is worked off within as many keyed operations as there were buckets (overdue = 0) and no
\* single operation relocates more than three buckets (<= 2 elements each here, plus the lookup's own two calls)
HashOK(r) ==
    /\ r.out = "ok" /\ r.priv /\ r.hbad = 0
    /\ r.size = r.n /\ r.found = r.n /\ r.absent /\ r.resizes > 0
    /\ r.overdue = 0 /\ r.maxcalls <= 8
    /\ r.visited1 = r.n /\ r.once1
    /\ r.erased = r.n \div 2 /\ r.size2 = r.n - r.erased /\ r.gonefound = 0
    /\ r.visited = r.size2 /\ r.once
    /\ r.cleared = r.size2 /\ r.clronce /\ r.size3 = 0 /\ r.size4 = 5

\* C11 on arrays of 3 000 - 200 000 records (key, id): ordered, a permutation of the input (identities distinct, each
\* key where its record went), nothing outside the array and the scratch element touched
SortOK(r) ==
    /\ r.out = "ok" /\ r.priv /\ r.guards
    /\ Len(r.before) = r.n /\ Len(r.ids) = r.n
    /\ Distinct(r.ids) /\ \A i \in 1..r.n : r.ids[i] \in 1..r.n
    /\ \A i \in 1..(r.n - 1) : r.before[r.ids[i]] <= r.before[r.ids[i + 1]]

\* C09 at 10^6 elements: constructor once per element entering, destructor once per element leaving, bytes kept across
\* every reallocation, capacity >= size (exactly size after shrink_to_fit), at(size) aborts
VecOK(r) ==
    /\ r.out = "ok" /\ r.priv /\ r.xbad = 0
    /\ r.ctors = r.n /\ r.cap1 >= r.n /\ r.kept1 /\ r.cap2 >= 3 * r.n
    /\ r.dtors2 = r.n - r.n \div 2 /\ r.size2 = r.n \div 2 /\ r.kept2
    /\ r.cap3 = r.size2 /\ r.kept3 /\ r.sorted /\ r.atend
    /\ r.dtors = r.n + 8 /\ r.size4 = 0
    \* emptied with its storage kept, then a reserve that cannot be satisfied: capacity and storage as before, still usable
    /\ r.capE >= r.size2 /\ r.capF = r.capE /\ r.reuse
\* C10 at 3*10^5 characters: sizes, terminator, contents against the construction rule, find, erase, substr to the end
StrOK(r) ==
    /\ r.out = "ok" /\ r.priv
    /\ r.size1 = r.n /\ r.size2 = r.n + 3 /\ r.term /\ r.content
    /\ r.f1 = r.n \div 2 /\ r.f2 = r.n \div 2 + 1 /\ r.f3 = -1
    /\ r.size3 = r.size2 - r.n \div 2 /\ r.subsize = r.size3 - 1 /\ r.cmp0 = 0 /\ r.cap >= r.size3

\* C05 with 7*10^4 owners of one allocation: every owner sees the same memory, a weak lock finds an owner as long as
\* there is one, nobody is unique, the clear callback runs when the last owner goes and only then
RefsOK(r) ==
    /\ r.out = "ok" /\ r.sameget
    /\ r.lockmid = 1 /\ r.uniqmid = 0 /\ r.clrmid = 0
    /\ r.locklast = 1 /\ r.uniqlast = 0 /\ r.clrlast = 0
    /\ r.clrend = 1 /\ r.lockend = 0
    \* n locks while owners exist all yield the memory, n locks afterwards all yield an empty pointer (nobody waits, nothing
    \* is cleared a second time): counters of any width that only ever count up would show here
    /\ r.lockrounds = r.n /\ r.deadrounds = r.n /\ r.clrfinal = 1
\* C14 with 7*10^4 views of one external buffer: release refuses (and changes nothing) while other views exist,
\* every index stays inside the buffer, the sole remaining user gets the buffer back
ViewsOK(r) ==
    /\ r.out = "ok" /\ r.early = 0 /\ r.size0 = 64 /\ r.inside /\ r.late = 1 /\ r.sizeend = 0
\* C03 / C04 / C19 after a long life: n resizes of a small table (each worked off within as many keyed operations as there
\* are buckets), then five elements, a shrink: all found, walked once, counted, handed over by clear
HashLifeOK(r) ==
    /\ r.out = "ok" /\ r.found = 5 /\ r.visited = 5 /\ r.once /\ r.size = 5 /\ r.cleared = 5 /\ r.overdue = 0
\* C03 / C04 with one chain of 5*10^5 elements under a single key, relocated by a grow and a shrink
HashDupOK(r) ==
    /\ r.out = "ok" /\ r.priv
    /\ r.size = r.n + 1000 /\ r.found5 = 1 /\ r.foundlast = 1
    /\ r.visited1 = r.size /\ r.once1
    /\ r.erased > 0 /\ r.size2 = r.size - r.erased /\ r.visited = r.size2 /\ r.once
\* C09 beyond 2^32 elements: exactly the elements leaving are destroyed (skipped where the address space is not to be had)
VecHugeOK(r) ==
    r.out = "ok" /\ (r.skipped \/ (r.d1 = 5 /\ r.size1 = 5 /\ r.d2 = 3 /\ r.size2 = 2 /\ r.bad = 0))

BigOK(r) == CASE r.op = "heapdrain" -> HeapOK(r)
              [] r.op \in {"slistsort", "dlistsort"} -> ListOK(r)
              [] r.op = "rbbig" -> TreeOK(r, TRUE)
              [] r.op = "bstbig" -> TreeOK(r, FALSE)
              [] r.op = "mapbig" -> MapOK(r)
              [] r.op = "hashbig" -> HashOK(r)
              [] r.op = "sortbig" -> SortOK(r)
              [] r.op = "vecbig" -> VecOK(r)
              [] r.op = "strbig" -> StrOK(r)
              [] r.op = "refsbig" -> RefsOK(r)
              [] r.op = "viewsbig" -> ViewsOK(r)
              [] r.op = "hashdup" -> HashDupOK(r)
              [] r.op = "hashlife" -> HashLifeOK(r)
              [] r.op = "vechuge" -> VecHugeOK(r)
              [] OTHER -> FALSE
VARIABLE i
TInit == i = 1
TNext == i < Len(Recs) /\ i' = i + 1
         /\ (IF BigOK(Recs[i + 1]) THEN TRUE ELSE PrintT(<<"L2FAIL", "big", Recs[i + 1].id>>))
TSpec == TInit /\ [][TNext]_i
Done == i = Len(Recs) => PrintT(<<"TRACE-END", i>>)
=============================================================================
