------------------------------- MODULE PtrConc -------------------------------
(***************************************************************************)
(* C06: the reference-count protocol of src/memory.c at atomic-step        *)
(* granularity, for several threads that each use their own shared (s1,    *)
(* s2) and weak (w) pointer objects on ONE allocation.                     *)
(*                                                                         *)
(* Shared state: hard, soft (the two counters), lock (the spin flag), mem  *)
(* and data ("live"/"freed": the managed memory and the bookkeeping        *)
(* block), clrs (clear-callback invocations).                              *)
(* One step = one event the instrumented real code produces:               *)
(*   an atomic operation on the bookkeeping block (fsub/fadd/xchg/store/   *)
(*   load at offset 0 = hard, 8 = soft, 16 = lock), a group of plain       *)
(*   accesses to its unique-pointer fields ("pr"/"pw" at 24), the clear    *)
(*   callback, free of the memory (target -1) or of the block (target -2). *)
(* pc[t] is a tuple: <<"rh", x, c>> = about to decrement hard while        *)
(* resetting object x, then continue at c; see Event/Step below.           *)
(* A thread's program is PLen operations followed by the clean-up          *)
(* <<reset1, reset2, wreset>> so that every pointer is reset at the end.   *)
(***************************************************************************)
EXTENDS Naturals, Integers, Sequences, FiniteSets, TLC
CONSTANTS NT,           \* number of threads
          Roles,        \* initial configuration of a thread: "owner" (s1), "weak" (w), "both", "none"
          Ops,          \* the operation under test of each thread
          HasClr,       \* the allocation has a clear callback
          PLen          \* operations per thread before the clean-up (1 or 2)
Threads == 1..NT
VARIABLES hard, soft, lock, mem, data, clrs, bad,
          role, prog, ip, pc, old, s1, s2, w, got
vars == <<hard, soft, lock, mem, data, clrs, bad, role, prog, ip, pc, old, s1, s2, w, got>>

END == <<"end">>
DONE == <<"done">>
Flag(t, x) == IF x = "s1" THEN s1[t] ELSE s2[t]

\* first event label of operation op for thread t given its objects (f1, f2, fw)
Entry(op, f1, f2, fw) ==
    CASE op = "reset1" -> IF f1 THEN <<"rh", "s1", END>> ELSE END
      [] op = "reset2" -> IF f2 THEN <<"rh", "s2", END>> ELSE END
      [] op = "wreset" -> IF fw THEN <<"ws", END>> ELSE END
      [] op = "share"  -> IF f2 THEN <<"rh", "s2", <<"sh">>>> ELSE IF f1 THEN <<"sh.h">> ELSE END
      [] op = "wfrom"  -> IF fw THEN <<"ws", <<"wf">>>> ELSE IF f1 THEN <<"wf.s">> ELSE END
      [] op = "lock"   -> IF f2 THEN <<"rh", "s2", <<"lk">>>> ELSE IF fw THEN <<"lk.x">> ELSE END
      [] op = "get1"   -> IF f1 THEN <<"g">> ELSE END
      [] op = "uniq1"  -> IF f1 THEN <<"u">> ELSE END
      [] op = "none"   -> END
\* resolve a continuation that is not an event: decisions after a reset phase, end of an operation
RECURSIVE Resolve(_, _, _, _, _, _)
Resolve(lbl, pr, i, f1, f2, fw) ==
    IF lbl = <<"sh">> THEN (IF f1 THEN <<"sh.h">> ELSE Resolve(END, pr, i, f1, f2, fw))
    ELSE IF lbl = <<"wf">> THEN (IF f1 THEN <<"wf.s">> ELSE Resolve(END, pr, i, f1, f2, fw))
    ELSE IF lbl = <<"lk">> THEN (IF fw THEN <<"lk.x">> ELSE Resolve(END, pr, i, f1, f2, fw))
    ELSE IF lbl = END THEN (IF i + 1 > Len(pr) THEN DONE
                            ELSE LET e == Entry(pr[i + 1], f1, f2, fw) IN
                                 IF e = END THEN Resolve(END, pr, i + 1, f1, f2, fw) ELSE e)
    ELSE lbl
\* ip after resolving (number of operations fully behind us)
RECURSIVE ResolveIp(_, _, _, _, _, _)
ResolveIp(lbl, pr, i, f1, f2, fw) ==
    IF lbl \in {<<"sh">>, <<"wf">>, <<"lk">>} THEN
        (IF (lbl = <<"lk">> /\ fw) \/ (lbl # <<"lk">> /\ f1) THEN i ELSE ResolveIp(END, pr, i, f1, f2, fw))
    ELSE IF lbl = END THEN (IF i + 1 > Len(pr) THEN i + 1
                            ELSE IF Entry(pr[i + 1], f1, f2, fw) = END THEN ResolveIp(END, pr, i + 1, f1, f2, fw) ELSE i + 1)
    ELSE i

CleanUp == <<"reset1", "reset2", "wreset">>
\* a thread's program: PLen operations (the second one meets whatever the first one left in s2 / w:
\* an occupied target is let go first, inside the same public call), then the clean-up
Progs == IF PLen = 1 THEN {<<a>> : a \in Ops} ELSE {<<a, b>> : a \in Ops, b \in Ops}
F1(r) == r \in {"owner", "both"}
FW(r) == r \in {"weak", "both"}
Card(S) == Cardinality(S)
Init ==
    /\ role \in [Threads -> Roles]
    /\ \E t \in Threads : role[t] # "none"                 \* somebody references the allocation
    /\ prog \in {[t \in Threads |-> o[t] \o CleanUp] : o \in [Threads -> Progs]}
    /\ s1 = [t \in Threads |-> F1(role[t])] /\ s2 = [t \in Threads |-> FALSE] /\ w = [t \in Threads |-> FW(role[t])]
    /\ hard = Card({t \in Threads : F1(role[t])})
    /\ soft = Card({t \in Threads : F1(role[t])}) + Card({t \in Threads : FW(role[t])})
    /\ lock = FALSE /\ data = "live"
    \* with no owner at the start the memory was already cleared and freed
    /\ mem = IF \E t \in Threads : F1(role[t]) THEN "live" ELSE "freed"
    /\ clrs = IF (\E t \in Threads : F1(role[t])) \/ ~HasClr THEN 0 ELSE 1
    /\ bad = FALSE
    /\ ip = [t \in Threads |-> ResolveIp(END, prog[t], 0, F1(role[t]), FALSE, FW(role[t]))]
    /\ pc = [t \in Threads |-> Resolve(END, prog[t], 0, F1(role[t]), FALSE, FW(role[t]))]
    /\ old = [t \in Threads |-> 0] /\ got = [t \in Threads |-> "none"]

\* the event the thread is about to produce: <<kind, offset-or-target, value seen>>
B2N(b) == IF b THEN 1 ELSE 0
Event(t) ==
    LET l == pc[t][1] IN
    CASE l = "rh"   -> <<"fsub", 0, hard>>
      [] l = "upr"  -> <<"pr", 24, 0>>
      [] l = "clr"  -> <<"clr", 0, 0>>
      [] l = "fm"   -> <<"free", -1, 0>>
      [] l = "upw"  -> <<"pw", 24, 0>>
      [] l = "rs"   -> <<"fsub", 8, soft>>
      [] l = "fd"   -> <<"free", -2, 0>>
      [] l = "ws"   -> <<"fsub", 8, soft>>
      [] l = "wfd"  -> <<"free", -2, 0>>
      [] l = "sh.h" -> <<"fadd", 0, hard>>
      [] l = "sh.s" -> <<"fadd", 8, soft>>
      [] l = "wf.s" -> <<"fadd", 8, soft>>
      [] l = "lk.x" -> <<"xchg", 16, B2N(lock)>>
      [] l = "lk.h" -> <<"fadd", 0, hard>>
      [] l = "lk.s" -> <<"fadd", 8, soft>>
      [] l = "lk.u" -> <<"fsub", 0, hard>>
      [] l = "lk.c" -> <<"store", 16, B2N(lock)>>
      [] l = "g"    -> <<"pr", 24, 0>>
      [] l = "u"    -> <<"load", 8, soft>>
      [] OTHER      -> <<"none", 0, 0>>
TouchesData(t) == pc[t][1] \notin {"clr", "fm", "done"}

\* go to label n (possibly a non-event continuation), with the thread's objects as given
Goto(t, n, f1, f2, fw) ==
    /\ pc' = [pc EXCEPT ![t] = Resolve(n, prog[t], ip[t], f1, f2, fw)]
    /\ ip' = [ip EXCEPT ![t] = ResolveIp(n, prog[t], ip[t], f1, f2, fw)]
    /\ s1' = [s1 EXCEPT ![t] = f1] /\ s2' = [s2 EXCEPT ![t] = f2] /\ w' = [w EXCEPT ![t] = fw]
SetX(t, x, v) == <<IF x = "s1" THEN v ELSE s1[t], IF x = "s2" THEN v ELSE s2[t]>>

Step(t) ==
    LET l == pc[t][1]
        uaf == TouchesData(t) /\ data # "live" IN
    /\ pc[t] # DONE
    /\ UNCHANGED <<role, prog>>
    /\ CASE l = "rh" ->          \* cstl_shared_ptr_reset: atomic_fetch_sub(&data->ref.hard, 1)
              /\ hard' = hard - 1 /\ old' = [old EXCEPT ![t] = hard]
              /\ Goto(t, IF hard = 1 THEN <<"upr", pc[t][2], pc[t][3]>> ELSE <<"rs", pc[t][2], pc[t][3]>>, s1[t], s2[t], w[t])
              /\ bad' = (bad \/ uaf \/ hard = 0)
              /\ UNCHANGED <<soft, lock, mem, data, clrs, got>>
         [] l = "upr" ->         \* cstl_unique_ptr_reset(&data->up): read the guarded pointer and the callback
              /\ Goto(t, IF HasClr THEN <<"clr", pc[t][2], pc[t][3]>> ELSE <<"fm", pc[t][2], pc[t][3]>>, s1[t], s2[t], w[t])
              /\ bad' = (bad \/ uaf) /\ UNCHANGED <<hard, soft, lock, mem, data, clrs, old, got>>
         [] l = "clr" ->
              /\ clrs' = clrs + 1 /\ Goto(t, <<"fm", pc[t][2], pc[t][3]>>, s1[t], s2[t], w[t])
              /\ bad' = (bad \/ mem # "live" \/ clrs # 0) /\ UNCHANGED <<hard, soft, lock, mem, data, old, got>>
         [] l = "fm" ->
              /\ mem' = "freed" /\ Goto(t, <<"upw", pc[t][2], pc[t][3]>>, s1[t], s2[t], w[t])
              /\ bad' = (bad \/ mem # "live") /\ UNCHANGED <<hard, soft, lock, data, clrs, old, got>>
         [] l = "upw" ->
              /\ Goto(t, <<"rs", pc[t][2], pc[t][3]>>, s1[t], s2[t], w[t])
              /\ bad' = (bad \/ uaf) /\ UNCHANGED <<hard, soft, lock, mem, data, clrs, old, got>>
         [] l = "rs" ->          \* cstl_weak_ptr_reset(sp): the object lets go, then atomic_fetch_sub(&data->ref.soft, 1)
              /\ soft' = soft - 1 /\ old' = [old EXCEPT ![t] = soft]
              /\ LET f == SetX(t, pc[t][2], FALSE) IN
                 Goto(t, IF soft = 1 THEN <<"fd", pc[t][2], pc[t][3]>> ELSE pc[t][3], f[1], f[2], w[t])
              /\ bad' = (bad \/ uaf \/ soft = 0) /\ UNCHANGED <<hard, lock, mem, data, clrs, got>>
         [] l = "fd" ->
              /\ data' = "freed" /\ Goto(t, pc[t][3], s1[t], s2[t], w[t])
              /\ bad' = (bad \/ data # "live") /\ UNCHANGED <<hard, soft, lock, mem, clrs, old, got>>
         [] l = "ws" ->
              /\ soft' = soft - 1 /\ old' = [old EXCEPT ![t] = soft]
              /\ Goto(t, IF soft = 1 THEN <<"wfd", pc[t][2]>> ELSE pc[t][2], s1[t], s2[t], FALSE)
              /\ bad' = (bad \/ uaf \/ soft = 0) /\ UNCHANGED <<hard, lock, mem, data, clrs, got>>
         [] l = "wfd" ->
              /\ data' = "freed" /\ Goto(t, pc[t][2], s1[t], s2[t], w[t])
              /\ bad' = (bad \/ data # "live") /\ UNCHANGED <<hard, soft, lock, mem, clrs, old, got>>
         [] l = "sh.h" ->        \* cstl_shared_ptr_share: the copy is made, atomic_fetch_add(hard)
              /\ hard' = hard + 1 /\ Goto(t, <<"sh.s">>, s1[t], TRUE, w[t])
              /\ bad' = (bad \/ uaf) /\ UNCHANGED <<soft, lock, mem, data, clrs, old, got>>
         [] l = "sh.s" ->
              /\ soft' = soft + 1 /\ Goto(t, END, s1[t], s2[t], w[t])
              /\ bad' = (bad \/ uaf) /\ UNCHANGED <<hard, lock, mem, data, clrs, old, got>>
         [] l = "wf.s" ->
              /\ soft' = soft + 1 /\ Goto(t, END, s1[t], s2[t], TRUE)
              /\ bad' = (bad \/ uaf) /\ UNCHANGED <<hard, lock, mem, data, clrs, old, got>>
         [] l = "lk.x" ->        \* while (atomic_flag_test_and_set(&data->ref.lock)) sched_yield();
              /\ IF lock THEN UNCHANGED <<lock, pc, ip, s1, s2, w>>
                 ELSE lock' = TRUE /\ Goto(t, <<"lk.h">>, s1[t], s2[t], w[t])
              /\ bad' = (bad \/ uaf) /\ UNCHANGED <<hard, soft, mem, data, clrs, old, got>>
         [] l = "lk.h" ->
              /\ hard' = hard + 1 /\ old' = [old EXCEPT ![t] = hard]
              /\ Goto(t, IF hard > 0 THEN <<"lk.s">> ELSE <<"lk.u">>, s1[t], s2[t], w[t])
              /\ bad' = (bad \/ uaf) /\ UNCHANGED <<soft, lock, mem, data, clrs, got>>
         [] l = "lk.s" ->        \* the memory is live: this thread is an owner from here on
              /\ soft' = soft + 1 /\ got' = [got EXCEPT ![t] = "yes"]
              /\ Goto(t, <<"lk.c">>, s1[t], TRUE, w[t])
              /\ bad' = (bad \/ uaf \/ mem # "live") /\ UNCHANGED <<hard, lock, mem, data, clrs, old>>
         [] l = "lk.u" ->
              /\ hard' = hard - 1 /\ got' = [got EXCEPT ![t] = "no"]
              /\ Goto(t, <<"lk.c">>, s1[t], FALSE, w[t])
              /\ bad' = (bad \/ uaf) /\ UNCHANGED <<soft, lock, mem, data, clrs, old>>
         [] l = "lk.c" ->
              /\ lock' = FALSE /\ Goto(t, END, s1[t], s2[t], w[t])
              /\ bad' = (bad \/ uaf \/ ~lock) /\ UNCHANGED <<hard, soft, mem, data, clrs, old, got>>
         [] l = "g" ->           \* cstl_shared_ptr_get: reads the unique pointer inside the block
              /\ Goto(t, END, s1[t], s2[t], w[t])
              /\ bad' = (bad \/ uaf \/ mem # "live") /\ UNCHANGED <<hard, soft, lock, mem, data, clrs, old, got>>
         [] l = "u" ->
              /\ old' = [old EXCEPT ![t] = soft] /\ Goto(t, END, s1[t], s2[t], w[t])
              /\ bad' = (bad \/ uaf) /\ UNCHANGED <<hard, soft, lock, mem, data, clrs, got>>
Next == \E t \in Threads : Step(t)
Spec == Init /\ [][Next]_vars
FairSpec == Spec /\ \A t \in Threads : WF_vars(Step(t))

(* ---- properties ---- *)
AllDone == \A t \in Threads : pc[t] = DONE
InReset(t, x) == pc[t][1] \in {"upr", "clr", "fm", "upw", "rs", "fd"} /\ pc[t][2] = x
Owner(t, x) == Flag(t, x) /\ ~InReset(t, x) /\ ~(x = "s2" /\ pc[t][1] = "lk.c" /\ got[t] = "no")
NOwners == Card({<<t, x>> \in Threads \X {"s1", "s2"} : Owner(t, x)})
\* no use after free, clear at most once, locks only yield live memory, counters never underflow
Safe == ~bad /\ clrs <= 1
\* memory freed => no committed owner; block freed => nobody refers to it
MemSafe == (mem = "freed" => NOwners = 0) /\ (data = "freed" => \A t \in Threads : ~s1[t] /\ ~s2[t] /\ ~w[t])
\* the counters are exactly the committed owners plus the increments in flight
HardOK == hard = NOwners + Card({t \in Threads : pc[t][1] \in {"lk.s", "lk.u"}})
Final == AllDone => (mem = "freed" /\ data = "freed" /\ clrs = (IF HasClr THEN 1 ELSE 0) /\ hard = 0 /\ soft = 0 /\ ~lock)
\* no two threads are ever both about to touch the unique-pointer fields with one of them writing
Plain(t) == pc[t][1] \in {"upr", "upw", "g"}
Writes(t) == pc[t][1] = "upw"
NoRace == \A t, u \in Threads : (t # u /\ Plain(t) /\ Plain(u)) => ~(Writes(t) \/ Writes(u))
Live == <>AllDone
=============================================================================
