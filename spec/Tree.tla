-------------------------------- MODULE Tree --------------------------------
(***************************************************************************)
(* L0: the bintree / rbtree state machine.  `held` is the abstract state   *)
(* (the multiset of C01 is a set of pool nodes with possibly equal keys).  *)
(* State-changing actions: Insert, Erase, Clear, Swap.  Read-only entry    *)
(* points (find, foreach in both directions with every stop position,      *)
(* height) are evaluated as invariants in every reachable state: that is   *)
(* "every operation in every reachable state".                              *)
(***************************************************************************)
EXTENDS TreeOps
CONSTANT WithSwap
VARIABLES st, held, cur, ok
vars == <<st, held, cur, ok>>

Init == st = Empty /\ held = {} /\ cur = 0 /\ ok = TRUE

Insert(n, h) == /\ n \notin held
                /\ st' = Canon(InsertOp(st, n, h))
                /\ held' = held \cup {n}
                /\ ok' = InsertContract(Members(st), Members(st'), n)
                /\ UNCHANGED cur
Erase(k) == LET e == EraseOp(st, k) IN
            /\ st' = Canon(e.s)
            /\ held' = held \ {e.ret}
            /\ ok' = EraseContract(Members(st), Members(st'), k, e.ret)
            /\ UNCHANGED cur
Clear == /\ st' = Canon(ClearOp(st).s)
         /\ held' = {}
         /\ ok' = (st'.root = 0 /\ st'.size = 0)
         /\ UNCHANGED cur
\* swap with the (always empty) second tree object: contents move over
Swap == WithSwap /\ cur' = 1 - cur /\ UNCHANGED <<st, held, ok>>
Keys == {Key[n] : n \in Nodes}
Next == \/ \E n \in Nodes, h \in BOOLEAN : Insert(n, h)
        \/ \E k \in Keys : Erase(k)
        \/ Clear
        \/ Swap
Spec == Init /\ [][Next]_vars

\* ---- invariants -------------------------------------------------------
InvStruct == StructOK(st) /\ Members(st) = held
InvRb == RB => RbOK(st)
\* every state-changing action refined the abstract one (ok is set by the
\* action from the contract operators, so a wrong step is a reachable bad state)
InvRefines == ok
InvProbes ==
    /\ \A k \in Keys \cup {0, 99} :
          IF k \in Keys THEN FindContract(held, k, Find(st, k).f) ELSE TRUE
    /\ \A rev \in BOOLEAN : \A stop \in 0..(3 * N) :
          LET f == ForeachOp(st, rev, stop) IN ForeachContract(held, rev, stop, f.ev, f.ret)
    /\ ClearContract(held, ClearOp(st).ev)
    /\ LET h == HeightOp(st) IN HeightContract(st, h.min, h.max)
=============================================================================
