------------------------------ MODULE GenVector ------------------------------
(* Behaviours out of TLC for src/vector.c (see GenTree): reserve / resize with    *)
(* small and unrepresentable requests, succeeding and failing allocations,        *)
(* shrink, clear, sort (any selector) and reverse chosen by the simulator,        *)
(* printed as JSON and replayed into the real code.  A resize that aborts ends a  *)
(* process and is left to the closure.                                            *)
EXTENDS Vector, Json
CONSTANT GenDepth
VARIABLE hist
GInit == Init /\ hist = <<>>
GNext == \/ \E t \in Terms, a \in BOOLEAN :
               DoReserve(t, a) /\ hist' = Append(hist, [op |-> "reserve", t |-> t, a |-> a])
         \/ \E t \in Terms, a \in BOOLEAN :
               ~ResizeOp(st, t, a).ab /\ DoResize(t, a) /\ hist' = Append(hist, [op |-> "resize", t |-> t, a |-> a])
         \/ \E a \in BOOLEAN : DoShrink(a) /\ hist' = Append(hist, [op |-> "shrink", a |-> a])
         \/ DoClear /\ st.count > 3 /\ hist' = Append(hist, [op |-> "clear"])
         \/ \E g \in 0..5 : DoSort /\ hist' = Append(hist, [op |-> "sort", algo |-> g])
         \/ DoReverse /\ hist' = Append(hist, [op |-> "reverse"])
GSpec == GInit /\ [][GNext]_<<vars, hist>>
Emit == IF Len(hist) < GenDepth THEN TRUE ELSE PrintT(ToJson(hist))
Bound == Len(hist) <= GenDepth
=============================================================================
