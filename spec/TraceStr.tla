------------------------------ MODULE TraceStr ------------------------------
(* Trace validation for the string drivers (real _string.c over vector.c).    *)
(*   L1: StrOps.Apply predicts outcome, post-state, return value (and the     *)
(*       allocator events of operations that complete).                       *)
(*   L2: C10: the characters equal the reference string after the textbook    *)
(*       edit, NUL-terminated, storage large enough, documented aborts,       *)
(*       clamped counts, no write outside the storage (guard bytes).          *)
EXTENDS StrOps, Json, IOUtils
CONSTANT Level
Recs == ndJsonDeserialize(IOEnv.TRACE)
ToSt(j) == [base |-> j.base, blk |-> j.blk, count |-> j.count, cap |-> j.cap, ch |-> j.ch]
Sane(j) == ~j.bad /\ ~j.damage
AllocKinds == {"alloc", "realloc", "free", "allocfail"}
Norm(ev) == [i \in 1..Len(ev) |-> IF ev[i][1] \in AllocKinds THEN <<ev[i][1]>> ELSE ev[i]]
StepOK(rec) ==
    IF ~Sane(rec.pre) THEN FALSE ELSE
    LET r == Apply(ToSt(rec.pre), rec) IN
    /\ rec.out = (IF r.m.ab THEN "abort" ELSE "ok")
    /\ ~r.m.ab => /\ Sane(rec.post) /\ ToSt(rec.post) = r.m.s /\ rec.ret = r.ret
                  /\ Norm(rec.ev) = r.m.ev
                  /\ rec.post.nlive = (IF r.m.s.base THEN 1 ELSE 0)
C10OK(rec) ==
    /\ rec.out \in {"ok", "abort"}           \* never a crash or a hang
    /\ ~rec.post.damage                      \* never a write outside the storage, aborting or not
    /\ rec.out = "ok" => Sane(rec.post) /\ rec.post.nlive = (IF rec.post.base THEN 1 ELSE 0)
    /\ ContractOK(rec, ToSt(rec.pre), IF rec.out = "ok" THEN ToSt(rec.post) ELSE Fresh, rec.out, Norm(rec.ev),
                  IF rec.out = "ok" THEN rec.ret ELSE 0)
\* C16: reserve quietly does nothing, growth aborts, nothing is written outside the storage
C16OK(rec) == rec.fail => (C10OK(rec) /\ (rec.out = "ok" /\ HasFail(Norm(rec.ev)) => ToSt(rec.post) = ToSt(rec.pre)))
ExtraOps == {}
\* In a closure the records of one state are contiguous (field g on the first of them = how many): the operations the
\* driver applied in that state must be exactly the model's own OpSet for it - no operation of the model is left
\* untried on the real code in any reachable state, and the driver tries nothing the model does not know.
\* (Recs[1] is the trace header: it carries the scope the driver was run with.)
GroupOps(k, S) ==
    LET names == {o.op : o \in S}
        FieldsOf(nm) == DOMAIN (CHOOSE o \in S : o.op = nm)
        J == {j \in k..(k + Recs[k].g - 1) : Recs[j].op \in names}
    IN {[f \in FieldsOf(Recs[j].op) |-> Recs[j][f]] : j \in J}
OpsOK(k) == LET rec == Recs[k]  S == OpSetM(ToSt(rec.pre), Recs[1].maxlen) IN
            ~Sane(rec.pre) \/ (/\ GroupOps(k, S) = S
                               /\ \A j \in k..(k + rec.g - 1) : Recs[j].op \in {o.op : o \in S} \cup ExtraOps)
VARIABLE i
Judge(rec) ==
    /\ (IF Level # 2 \/ C16OK(rec) THEN TRUE ELSE PrintT(<<"L2FAIL", "C16", rec.id>>))
    /\ (IF Level # 2 \/ C10OK(rec) THEN TRUE ELSE PrintT(<<"L2FAIL", "C10", rec.id>>))
    /\ (IF Level # 1 \/ StepOK(rec) THEN TRUE ELSE PrintT(<<"L1DRIFT", "str", rec.id>>))
TInit == i = 1
TNext == i < Len(Recs) /\ i' = i + 1 /\ Judge(Recs[i + 1])
         /\ (IF Level # 1 \/ Recs[i + 1].g = 0 \/ OpsOK(i + 1) THEN TRUE ELSE PrintT(<<"OPSDIFF", "str", Recs[i + 1].id>>))
TSpec == TInit /\ [][TNext]_i
Done == i = Len(Recs) => PrintT(<<"TRACE-END", i>>)
=============================================================================
