------------------------------- MODULE GenArr -------------------------------
(* Behaviours out of TLC for the array views of src/array.c (see GenTree): operations chosen by the simulator from *)
(* the model's own OpSet (aborting ones end a process and are left to the closure), printed   *)
(* as JSON and replayed into the real code.                                                   *)
EXTENDS Arr, Json
CONSTANT GenDepth
VARIABLE hist
GInit == Init /\ hist = <<>>
GNext == \E o \in OpSet : ~Apply(st, o).m.ab /\ Step(o) /\ hist' = Append(hist, o)
GSpec == GInit /\ [][GNext]_<<vars, hist>>
Emit == IF Len(hist) < GenDepth THEN TRUE ELSE PrintT(ToJson(hist))
Bound == Len(hist) <= GenDepth
=============================================================================
