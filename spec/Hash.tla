-------------------------------- MODULE Hash --------------------------------
(***************************************************************************)
(* L0: the hash table state machine over HashOps.  `live` is the abstract  *)
(* state (set of pool elements in the table).  Every action computes the   *)
(* concrete step with the operators that transcribe hash.c and records in  *)
(* okv whether the step satisfied the contracts of C03/C04/C17/C19; the    *)
(* invariants then say that no reachable step breaks a contract.           *)
(***************************************************************************)
EXTENDS HashOps
CONSTANTS Funcs,      \* function ids that may be requested (0 = NULL)
          WithFaults, \* allocation failures are explored
          WithSwap
VARIABLES st, live, okv, cur
vars == <<st, live, okv, cur>>

AllOK == [c03 |-> TRUE, c04 |-> TRUE, c17 |-> TRUE, c19 |-> TRUE]
Init == st = Fresh /\ live = {} /\ okv = AllOK /\ cur = 0

Keys == {KeyOf[e] : e \in Elems}
Usable == st.at

\* common bookkeeping of a step that produced machine m.  A step in which the
\* code calls abort() ends the process: it is a stuttering step here (the
\* implementation-side exploration does not continue from it either), but its
\* fail-stop judgement is still recorded in okv.
Commit(m, newlive, c03, c04, c19) ==
    /\ st' = IF m.ab THEN st ELSE Canon(m.s)
    /\ live' = IF m.ab THEN live ELSE newlive
    /\ okv' = [c03 |-> m.ab \/ (c03 /\ WellFormed(m.s) /\ Live(m.s) = newlive /\ m.s.n = Cardinality(newlive)),
               c04 |-> m.ab \/ c04,
               c17 |-> FailStop(m.ev, m.ab),
               c19 |-> m.ab \/ c19]
    /\ UNCHANGED cur

DoResize(cnt, f, ok) ==
    /\ LET m == ResizeOp(st, cnt, f, ok)
           sat == ok \/ cnt <= st.cap
           prevH == TargetHash(st)
       IN Commit(m, live, TRUE, TRUE,
                 sat => /\ TargetCount(m.s) = cnt
                        /\ TargetHash(m.s) = (IF f # 0 THEN f ELSE IF prevH # 0 THEN prevH ELSE 3))
DoRehash == /\ Usable /\ LET m == RehashOp(st) IN Commit(m, live, TRUE, TRUE, ~m.s.pend)
DoShrink(ok) == /\ LET m == ShrinkOp(st, ok) IN
                   Commit(m, live, TRUE, TRUE, TargetCount(m.s) = TargetCount(st) /\ TargetHash(m.s) = TargetHash(st))
DoInsert(e) == /\ Usable /\ e \notin live
               /\ LET m == InsertOp(st, e) IN
                  Commit(m, live \cup {e}, TRUE, TRUE, KeyedWork(st, m.s) /\ OneCall(st, KeyOf[e], m.ev))
DoErase(e) == /\ Usable
              /\ LET m == EraseOp(st, e) IN
                 Commit(m, live \ {e}, TRUE, TRUE, KeyedWork(st, m.s) /\ OneCall(st, KeyOf[e], m.ev))
\* find changes the table only through the cleaning done by the keyed access,
\* which does not depend on the visit function: all modes are judged here
DoFind(k) == /\ Usable
             /\ LET r == FindOp(st, k, 0, 0) IN
                Commit(r.m, live,
                       \A mode \in 0..1 : \A x \in (IF mode = 0 THEN {0} ELSE {0} \cup Elems) :
                           LET q == FindOp(st, k, mode, x) IN
                           q.m.ab \/ FindContract(live, k, mode, x, q.m.ev, q.ret),
                       TRUE, KeyedWork(st, r.m.s) /\ OneCall(st, k, r.m.ev))
DoForeach(stop, er) ==
    /\ Usable
    /\ LET r == ForeachOp(st, stop, er)
           gone == IF er THEN SeqSet(EvIds(r.m.ev, "v")) ELSE {}
       IN Commit(r.m, live \ gone, TRUE, WalkContract(live, stop, r.m.ev, r.ret), TRUE)
DoClear == /\ LET m == ClearOp(st, TRUE) IN
              Commit(m, {}, TRUE, ClearContract(live, TRUE, m.ev) /\ ~m.s.at /\ m.s.n = 0, TRUE)
DoSwap == WithSwap /\ cur' = 1 - cur /\ UNCHANGED <<st, live, okv>>

Next == \/ \E c \in 1..MaxB, f \in Funcs, ok \in (IF WithFaults THEN BOOLEAN ELSE {TRUE}) : DoResize(c, f, ok)
        \/ DoRehash
        \/ \E ok \in (IF WithFaults THEN BOOLEAN ELSE {TRUE}) : DoShrink(ok)
        \/ \E e \in Elems : DoInsert(e) \/ DoErase(e)
        \/ \E k \in Keys : DoFind(k)
        \/ \E stop \in 0..NE, er \in BOOLEAN : DoForeach(stop, er)
        \/ DoClear
        \/ DoSwap
Spec == Init /\ [][Next]_vars

\* ---- invariants -----------------------------------------------------------
C03 == okv.c03
C04 == okv.c04
C17 == okv.c17
C19 == okv.c19
\* read-only entry points judged in every reachable state
C04walk == Usable => \A stop \in 0..NE :
              LET r == ForeachConstOp(st, stop) IN WalkContract(live, stop, r.m.ev, r.ret)
\* C19 bounded completion: a pending rehash is finished by at most `count`
\* keyed operations (the sweep index advances on each one)
C19sweep == (Usable /\ st.pend) => st.rhclean <= st.count
\* a table that was sized is never left with zero buckets (the "reusable after
\* clear" half of C04: a keyed operation would evaluate hash(k, 0))
C04reuse == st.at => st.count > 0
Repr == ReprOK(st)
=============================================================================
