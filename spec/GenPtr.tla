------------------------------- MODULE GenPtr -------------------------------
(* Behaviours out of TLC for the smart pointers of src/memory.c (see GenTree):   *)
(* operations chosen by the simulator from the model's own OpSet, printed as     *)
(* JSON and replayed into the real code.                                         *)
EXTENDS Ptr, Json
CONSTANT GenDepth
VARIABLE hist
GInit == Init /\ hist = <<>>
GNext == \E o \in OpSet : Step(o) /\ hist' = Append(hist, o)
GSpec == GInit /\ [][GNext]_<<vars, hist>>
Emit == IF Len(hist) < GenDepth THEN TRUE ELSE PrintT(ToJson(hist))
Bound == Len(hist) <= GenDepth
=============================================================================
