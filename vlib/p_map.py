"""C08: src/map.c over rbtree.c against MapOps.tla."""
from .core import *

LIB = ["map.c", "rbtree.c", "bintree.c", "common.c"]
WRAP = ("malloc", "realloc", "calloc", "free")


def consts(nk):
    return f"  N = {nk}\n  Key <- K\n  RB = TRUE"


def kdef(nk):
    return "K == " + tla_seq(range(1, nk + 1))


def closure(ctx, exe, tag, nk, props):
    cfg = "CONSTANTS\n" + consts(nk) + "\nSPECIFICATION Spec\nINVARIANT InvOK\nINVARIANT InvFind\nINVARIANT InvSize\n"
    r = l0(ctx, tag, "Map", kdef(nk), cfg)
    impl_phase(ctx, "impl-" + tag, exe, ["explore"], [nk, 1, 1], "TraceMap", kdef(nk), consts(nk), props, expect_states=r.distinct)


def map_line(o):
    if o["op"] == "insert":
        return f"0 {o['k']} {o['ko']} {o['vo']} {0 if o['a'] else 1}"
    if o["op"] == "erase":
        return f"2 {o['k']}"
    return "4 1"


def generated(ctx, exe, tag, nk, depth, num, props):
    """spec -> code: walks of the Map machine chosen by TLC's simulator, replayed into src/map.c"""
    gen_replay(ctx, tag, "GenMap", kdef(nk), consts(nk), depth, num, map_line, exe, [nk, 1, 1], "TraceMap", consts(nk), props)


def run(ctx):
    props = {ctx.pid}
    exe = build(ctx, "drv_map", "drv_map.c", LIB, wrap=WRAP)
    if ctx.quick:
        closure(ctx, exe, "k4", 4, props)
        generated(ctx, exe, "gen-k10", 10, 30, 20, props)
        nk, steps = 40, 6000
    else:
        closure(ctx, exe, "k5", 5, props)
        generated(ctx, exe, "gen-k16", 16, 60, 150, props)
        nk, steps = 64, 40000
    impl_phase(ctx, "rand", exe, ["random", ctx.seed, steps, 2], [nk, 1, 1], "TraceMap", kdef(nk), consts(nk), props)
    # half a million entries in ascending key order: the deepest red-black trees insert-only histories produce
    from . import p_big
    p_big.big_phase(ctx, ["map:500000"] if ctx.quick else ["map:500000", "map:1500000"])
    ctx.assumptions += [
        "TLC and the TLA+ text of C08OK / SameBut in MapOps.tla / TraceMap.tla are trusted",
        "two distinct key objects per key value and two value objects make 'stored pointers untouched' observable; the compare function orders by value, against address order",
        "the private node {key, val, rbtree node} is read through a mirror of its layout; node liveness comes from the allocator interposer",
    ]
    return finish(ctx)
