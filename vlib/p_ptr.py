"""C05 (ownership / exactly-once), C20 (stray bit-copies): src/memory.c against PtrOps.tla."""
import random
from .core import *

LIB = ["memory.c", "common.c"]
WRAP = ("malloc", "realloc", "calloc", "free")


def consts(ns, nw, nu):
    return f"  NS = {ns}\n  NW = {nw}\n  NU = {nu}"


def closure(ctx, exe, tag, ns, nw, nu, faults, stray, props):
    cfg = "CONSTANTS\n" + consts(ns, nw, nu) + f"\n  WithFaults = {'TRUE' if faults else 'FALSE'}\nSPECIFICATION Spec\nINVARIANT InvOK\nINVARIANT InvCounts\n"
    r = l0(ctx, tag, "Ptr", "", cfg)
    impl_phase(ctx, "impl-" + tag, exe, ["explore"], [ns, nw, nu, int(faults), int(stray)], "TracePtr", "", consts(ns, nw, nu), props,
               expect_states=r.distinct)


def run(ctx):
    props = {ctx.pid}
    exe = build(ctx, "drv_ptr", "drv_ptr.c", LIB, wrap=WRAP)
    stray = ctx.pid == "C20"
    if ctx.quick:
        closure(ctx, exe, "s2w1u1", 2, 1, 1, True, stray, props)
        if not stray:
            closure(ctx, exe, "s2w2u0", 2, 2, 0, False, False, props)
        n, steps = (3, 2, 2), 3000
    else:
        closure(ctx, exe, "s2w1u1", 2, 1, 1, True, stray, props)
        closure(ctx, exe, "s3w2u2", 3, 2, 2, not stray, stray, props)
        # objects set up with the CSTL_*_INITIALIZER macros instead of the init functions: same closure, same model
        closure(ctx, build(ctx, "drv_ptr_macro", "drv_ptr.c", LIB, wrap=WRAP, defs=["USE_INITIALIZER"]), "s2w1u1-macro", 2, 1, 1, True, stray, props)
        n, steps = (4, 3, 3), 30000
    impl_phase(ctx, "rand", exe, ["random", ctx.seed, steps, 2], [n[0], n[1], n[2], 1, 0], "TracePtr", "", consts(*n), props)
    if stray:
        # array objects: the same probes from every state of the C14 closure
        from . import p_arr
        p_arr.run_c14(ctx, props, stray=True)
    ctx.assumptions += [
        "TLC and the TLA+ text of Contract / LifeOK / StrayAborts in PtrOps.tla are trusted",
        "allocator events and liveness come from the link-time interposer; the clear callback is the driver's",
        "hard/soft are read from the first two words of the bookkeeping block for L1 only (layout assumption; L2 does not use them)",
        "shared and weak objects are used as their own type; each thread of control is sequential here (threads: C06)",
    ]
    return finish(ctx)
