"""C05 (ownership / exactly-once), C20 (stray bit-copies): src/memory.c against PtrOps.tla."""
import random
from .core import *

LIB = ["memory.c", "common.c"]
WRAP = ("malloc", "realloc", "calloc", "free")


def consts(ns, nw, nu):
    return f"  NS = {ns}\n  NW = {nw}\n  NU = {nu}"


def closure(ctx, exe, tag, ns, nw, nu, faults, stray, props):
    cfg = "CONSTANTS\n" + consts(ns, nw, nu) + f"\n  WithFaults = {'TRUE' if faults else 'FALSE'}\nSPECIFICATION Spec\nINVARIANT InvOK\nINVARIANT InvCounts\n"
    r = l0(ctx, tag, "Ptr", "", cfg)
    impl_phase(ctx, "impl-" + tag, exe, ["explore"], [ns, nw, nu, int(faults), int(stray)], "TracePtr", "", consts(ns, nw, nu), props,
               expect_states=r.distinct)


def ptr_line(o):
    op = o["op"]
    b = lambda x: 1 if x else 0
    if op == "salloc":
        mask = (0 if o["ok"][0] else 1) | (0 if o["ok"][1] else 2)
        return f"0 {o['s']} {o['clr']} {mask} {b(o['zero'])}"
    if op == "ualloc":
        return f"10 {o['u']} {b(o['clr'])} {0 if o['ok'][0] else 1} {b(o['zero'])}"
    two = {"share": (1, "e", "n"), "sswap": (2, "a", "b"), "wfrom": (6, "w", "s"), "wlock": (7, "w", "s"), "wswap": (8, "a", "b"),
           "urelease": (11, "u", "outs"), "uswap": (12, "a", "b")}
    one = {"sreset": (3, "s"), "sget": (4, "s"), "sunique": (5, "s"), "wreset": (9, "w"), "ureset": (13, "u"), "uget": (14, "u")}
    if op in two:
        k, x, y = two[op]
        return f"{k} {o[x]} {o[y]}"
    if op in one:
        k, x = one[op]
        return f"{k} {o[x]}"
    raise HarnessError(f"no driver line for generated operation {o}")


def generated(ctx, exe, tag, n, depth, num, props):
    """spec -> code: walks of the Ptr machine (operations from its own OpSet, allocation failures included) chosen
    by TLC's simulator, replayed into src/memory.c"""
    gen_replay(ctx, tag, "GenPtr", "", consts(*n) + "\n  WithFaults = TRUE", depth, num, ptr_line, exe, [n[0], n[1], n[2], 1, 0],
               "TracePtr", consts(*n), props)


def run(ctx):
    props = {ctx.pid}
    exe = build(ctx, "drv_ptr", "drv_ptr.c", LIB, wrap=WRAP)
    stray = ctx.pid == "C20"
    if ctx.quick:
        closure(ctx, exe, "s2w1u1", 2, 1, 1, True, stray, props)
        if not stray:
            closure(ctx, exe, "s2w2u0", 2, 2, 0, False, False, props)
        if not stray:
            generated(ctx, exe, "gen-s3w2u2", (3, 2, 2), 40, 20, props)
        n, steps = (3, 2, 2), 3000
    else:
        closure(ctx, exe, "s2w1u1", 2, 1, 1, True, stray, props)
        if stray:
            closure(ctx, exe, "s2w2u1", 2, 2, 1, False, True, props)      # (3/2/2 objects x stray probes: ~15 million transitions)
        else:
            closure(ctx, exe, "s3w2u2", 3, 2, 2, True, False, props)
        # objects set up with the CSTL_*_INITIALIZER macros instead of the init functions: same closure, same model
        closure(ctx, build(ctx, "drv_ptr_macro", "drv_ptr.c", LIB, wrap=WRAP, defs=["USE_INITIALIZER"]), "s2w1u1-macro", 2, 1, 1, True, stray, props)
        if not stray:
            generated(ctx, exe, "gen-s4w3u2", (4, 3, 2), 80, 150, props)
        n, steps = (4, 3, 3), 30000
    impl_phase(ctx, "rand", exe, ["random", ctx.seed, steps, 2], [n[0], n[1], n[2], 1, 0], "TracePtr", "", consts(*n), props)
    if stray:
        # array objects: the same probes from every state of the C14 closure
        from . import p_arr
        p_arr.run_c14(ctx, props, stray=True)
    if not stray:
        # 70 000 owners of one allocation (reference counts past 2^16)
        from . import p_big
        p_big.big_phase(ctx, ["refs:70000"] if ctx.quick else ["refs:70000", "refs:300000"])
    ctx.assumptions += [
        "TLC and the TLA+ text of Contract / LifeOK / StrayAborts in PtrOps.tla are trusted",
        "allocator events and liveness come from the link-time interposer; the clear callback is the driver's",
        "hard/soft are read from the first two words of the bookkeeping block for L1 only (layout assumption; L2 does not use them)",
        "shared and weak objects are used as their own type; each thread of control is sequential here (threads: C06)",
    ]
    return finish(ctx)
