"""C11: sorting / searching algorithms of src/array.c (and the vector wrappers) against SortOps.tla."""
from .core import *

LIB = ["array.c", "vector.c", "memory.c", "common.c"]


def record_phase(ctx, tag, exe, args, props, levels=(1, 2)):
    t = time.time()
    trace = ctx.work / f"{tag}.ndjson"
    rc, out = sh([str(exe), str(trace)] + [str(a) for a in args], timeout=900)
    died = rc != 0
    if died:
        sanitize_trace(trace)
    res = validate(ctx, tag, "TraceSort", "", "", trace, levels=levels)
    nviol = judge_trace(ctx, tag, trace, res, props, {"args": [str(a) for a in args]}, summ={"_rc": rc, "_out": out[-1000:]}, died=died)
    ctx.cov["traces_validated_against_impl"] += res["n"]
    ctx.cov["impl_runs"].append({"phase": tag, "mode": args[0], "runs_validated": res["n"], "l2_failures": nviol,
                                 "l1_mismatches": len(res["l1"]), "wall_s": round(time.time() - t, 1)})
    for k, v in op_histogram(trace).items():
        ctx.cov["coverage_by_action"][k] = ctx.cov["coverage_by_action"].get(k, 0) + v
    for r in sample_records(trace, 2):
        ctx.cov["samples"].append({"phase": tag, "record": r})
    ctx.log(f"{tag}: {res['n']} real runs validated, L2 failures={nviol}, L1 mismatches={len(res['l1'])}")
    if not nviol:
        os.unlink(trace)


def run(ctx):
    props = {ctx.pid}
    exe = build(ctx, "drv_sort", "drv_sort.c", LIB, flags=REL_FLAGS + ["-Wl,--wrap=rand,--wrap=malloc,--wrap=realloc,--wrap=free"])
    ml = 5 if ctx.quick else 6
    cfg = f"CONSTANTS\n  MaxLen = {ml}\n  Algos = {{0,1,2,3,7}}\nSPECIFICATION Spec\nINVARIANT Safe\nINVARIANT Done\nINVARIANT Probes\nCHECK_DEADLOCK FALSE\n"
    l0(ctx, f"sort{ml}", "Sort", "", cfg)
    # termination for every draw that makes progress (weak fairness), smaller scope
    cfgl = f"CONSTANTS\n  MaxLen = {4 if ctx.quick else 5}\n  Algos = {{0,1,2,3,7}}\nSPECIFICATION FairSpec\nINVARIANT Safe\nPROPERTY Terminates\nCHECK_DEADLOCK FALSE\n"
    l0(ctx, "sort-live", "Sort", "", cfgl)
    record_phase(ctx, "exhaustive", exe, ["exhaustive", 4 if ctx.quick else 5, 4 if ctx.quick else 5], props)
    # large adversarial inputs are judged by the contract only (the step-by-step model is quadratic on them)
    record_phase(ctx, "large", exe, ["large", 300 if ctx.quick else 2000, ctx.seed], props, levels=(2,))
    # 40 000 - 200 000 records in the input shapes on which partitioning degenerates, every selector, array and vector
    from . import p_big
    p_big.big_phase(ctx, ["sort:40000"] if ctx.quick else ["sort:40000", "sort:200000"])
    ctx.cov["exhaustive"] = not ctx.violations
    ctx.assumptions += [
        "TLC and the TLA+ text of SortContract / SearchContract / FindContract / EvInRange are trusted",
        "rand() is wrapped at link time: the driver enumerates every draw sequence (values 0..len-1, up to 4-5 draws deep, zeros beyond) for element sizes 1 and 2",
        "termination of the randomised variant is claimed for draws that make progress (weak fairness); an adversarial infinite sequence of 'last index holding the strict maximum' draws recurses without bound in model and code alike - recorded as an observation, not a violation (DESIGN §6 C11)",
    ]
    write_evidence(ctx)
    if not ctx.violations:
        shutil.rmtree(ctx.work, ignore_errors=True)
    return 1 if ctx.violations else 0
