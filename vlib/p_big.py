"""Containers of 2^16 and more elements (harness/drv_big.c), judged by spec/TraceBig.tla: used as a phase by the
checks of C01/C02 (rb, bst), C07 (heap), C08 (map), C12/C13 (dlist, slist) and C15."""
from .core import *

LIB = ["heap.c", "bintree.c", "rbtree.c", "slist.c", "dlist.c", "map.c", "hash.c", "array.c", "vector.c", "string.c", "memory.c", "common.c"]


def big_phase(ctx, whats, tag="big"):
    """whats: e.g. ["heap:70000", "rb:200000"]; one TLC process per record (the records are independent)"""
    if ctx.violations and os.environ.get("VERIF_ALL_PHASES") != "1":
        ctx.log(f"{tag}: skipped, an earlier phase already established a violation")
        return
    t = time.time()
    exe = build(ctx, "drv_big", "drv_big.c", LIB, flags=["-std=gnu99", "-O1", "-D_GNU_SOURCE", "-fstack-protector-all"], libs=["-lm"])
    trace = ctx.work / f"{tag}.ndjson"
    rc, out = sh([str(exe), str(trace), str(ctx.seed)] + whats, timeout=3000)
    if rc == 124:
        violation(ctx, f"{tag}: the library did not come back within the time limit on a large container ({' '.join(whats)})", {"signature": "big:hang"})
        return
    if rc != 0:
        raise HarnessError(f"drv_big failed rc={rc}: {out[-1500:]}")
    with open(trace) as f:
        hdr = f.readline()
        lines = f.readlines()
    parts = []
    for k, line in enumerate(lines):
        p = Path(str(trace) + f".r{k}")
        p.write_text(hdr + line)
        parts.append(p)

    def one(kp):
        k, p = kp
        nm = f"TV_{tag}_{k}"
        return tlc(ctx, f"tv-{tag}-{k}", nm, mc_module(nm, "TraceBig"), "SPECIFICATION TSpec\nINVARIANT Done\nCHECK_DEADLOCK FALSE\n",
                   env={"TRACE": str(p)}, workers=1, heap="4g", timeout=1500, extra=["-maxSetSize", "20000000"])
    with ThreadPoolExecutor(max_workers=min(8, NCPU)) as ex:        # at most 8 x 4 GB of validators at a time
        results = list(ex.map(one, list(enumerate(parts))))
    bad = []
    for (k, p), r in zip(enumerate(parts), results):
        if not (r.rc == 0 and any(x.startswith('"TRACE-END"') for x in r.prints)):
            raise HarnessError(f"TLC failed on {tag} record {k}: " + r.out[-1500:])
        if any(x.startswith('"L2FAIL"') for x in r.prints):
            bad.append(k)
    for k in bad[:3]:
        rec = json.loads(lines[k])
        brief = {a: (b if not isinstance(b, list) else f"<{len(b)} values>") for a, b in rec.items()}
        violation(ctx, f"{tag}: the contract fails on a container of {rec.get('n')} elements: {json.dumps(brief)}",
                  {"signature": f"big:{rec.get('op')}", "record": brief})
    ctx.cov["traces_validated_against_impl"] += len(lines)
    ctx.cov["impl_runs"].append({"phase": tag, "mode": "big", "scenarios": [json.loads(l).get("op") + ":" + str(json.loads(l).get("n")) for l in lines],
                                 "l2_failures": len(bad), "wall_s": round(time.time() - t, 1)})
    ctx.log(f"{tag}: {len(lines)} scenarios on containers of {', '.join(w.split(':')[1] for w in whats)} elements judged by TLC, {len(bad)} fail")
    for p in parts:
        os.unlink(p)
