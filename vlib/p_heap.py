"""C07: src/heap.c (and cstl_fls) against HeapOps.tla."""
import random
from .core import *

LIB = ["heap.c", "bintree.c", "common.c"]


def consts(pr):
    return f"  N = {len(pr)}\n  Prio <- P"


def pdef(pr):
    return "P == " + tla_seq(pr)


def closure(ctx, exe, tag, pr, props):
    cfg = "CONSTANTS\n" + consts(pr) + "\nSPECIFICATION Spec\nINVARIANT InvOK\nINVARIANT InvHeap\nINVARIANT InvTop\n"
    r = l0(ctx, tag, "Heap", pdef(pr), cfg)
    impl_phase(ctx, "impl-" + tag, exe, ["explore"], ["".join(map(str, pr)), 0, 1], "TraceHeap", pdef(pr), consts(pr), props,
               expect_states=r.distinct)


def heap_line(o):
    return {"push": lambda: f"0 {o['n']}", "pop": lambda: "1", "clear": lambda: "3"}[o["op"]]()


def generated(ctx, exe, tag, pr, depth, num, props):
    """spec -> code: behaviours chosen by TLC's simulator on the Heap machine, replayed into src/heap.c"""
    gen_replay(ctx, tag, "GenHeap", pdef(pr), consts(pr), depth, num, heap_line, exe, ["".join(map(str, pr)), 0, 1],
               "TraceHeap", consts(pr), props)


def run(ctx):
    props = {ctx.pid}
    exe = build(ctx, "drv_heap", "drv_heap.c", LIB)
    rng = random.Random(ctx.seed)
    closure(ctx, exe, "p6", [1, 1, 2, 2, 3, 3], props)
    if ctx.quick:
        closure(ctx, exe, "p7", [2, 1, 3, 1, 2, 3, 2], props)
        generated(ctx, exe, "gen-p14", [1 + rng.randrange(5) for _ in range(14)], 30, 40, props)
        n, steps = 64, 3000
    else:
        closure(ctx, exe, "p8", [2, 1, 3, 1, 2, 3, 2, 4], props)
        closure(ctx, exe, "p9", [1, 2, 3, 4, 5, 6, 7, 8, 9], props)
        # objects set up with the CSTL_*_INITIALIZER macros instead of the init functions: same closure, same model
        closure(ctx, build(ctx, "drv_heap_macro", "drv_heap.c", LIB, defs=["USE_INITIALIZER"]), "p6-macro", [1, 1, 2, 2, 3, 3], props)
        generated(ctx, exe, "gen-p24", [1 + rng.randrange(6) for _ in range(24)], 60, 300, props)
        n, steps = 300, 25000
    pr = [1 + rng.randrange(6) for _ in range(n)]
    impl_phase(ctx, "rand", exe, ["random", ctx.seed, steps, 2], ["".join(map(str, pr)), 1, 1], "TraceHeap", pdef(pr), consts(pr), props)
    # growth past the powers of two (slot navigation by the bits of the size): a directed history - fill to N,
    # with a pop and a re-push at every size 2^k-1, 2^k, 2^k+1 on the way up and again on the way down -
    # replayed into the real code and judged by the contract only (L1 on 600-node states adds nothing new)
    nbig = 600 if ctx.quick else 1300
    big = [1 + rng.randrange(9) for _ in range(nbig)]
    crit = {2 ** k + d for k in range(1, 11) for d in (-1, 0, 1)}
    lines, size, nxt, free = ["reset"], 0, 1, []
    def push():
        nonlocal size, nxt
        if free:
            lines.append(f"0 {free.pop()}")
        else:
            lines.append(f"0 {nxt}"); nxt += 1
        size += 1
    while size < nbig - 80:
        push()
        if size in crit:
            lines.append("1"); size -= 1      # which element leaves is the heap's business: the driver tracks it
            # the popped element becomes available again: the driver's `held` bookkeeping is authoritative, so
            # re-push a fresh pool element instead of guessing which one came out
            push()
    while size > 0:
        lines.append("1"); size -= 1
        if size in crit and nxt <= nbig:
            push(); lines.append("1"); size -= 1
    script = ctx.work / "ramp.ops"
    script.write_text("\n".join(lines) + "\n")
    impl_phase(ctx, "ramp", exe, ["replay", script], ["".join(map(str, big)), 0, 1], "TraceHeap", pdef(big), consts(big), props, levels=(2,))
    # 2^16 and beyond: slot navigation by the bits of the size has its next boundaries there
    from . import p_big
    p_big.big_phase(ctx, ["heap:70000"] if ctx.quick else ["heap:70000", "heap:140000"])
    ctx.assumptions += [
        "TLC and the TLA+ text of the contract in HeapOps.tla (HeapOK, TopContract, PopContract) are trusted",
        "the driver reads root/parent/left/right/size from the real structs",
    ]
    return finish(ctx)
