"""C07: src/heap.c (and cstl_fls) against HeapOps.tla."""
import random
from .core import *

LIB = ["heap.c", "bintree.c", "common.c"]


def consts(pr):
    return f"  N = {len(pr)}\n  Prio <- P"


def pdef(pr):
    return "P == " + tla_seq(pr)


def closure(ctx, exe, tag, pr, props):
    cfg = "CONSTANTS\n" + consts(pr) + "\nSPECIFICATION Spec\nINVARIANT InvOK\nINVARIANT InvHeap\nINVARIANT InvTop\n"
    r = l0(ctx, tag, "Heap", pdef(pr), cfg)
    impl_phase(ctx, "impl-" + tag, exe, ["explore"], ["".join(map(str, pr)), 0, 1], "TraceHeap", pdef(pr), consts(pr), props,
               expect_states=r.distinct)


def run(ctx):
    props = {ctx.pid}
    exe = build(ctx, "drv_heap", "drv_heap.c", LIB)
    rng = random.Random(ctx.seed)
    closure(ctx, exe, "p6", [1, 1, 2, 2, 3, 3], props)
    if ctx.quick:
        closure(ctx, exe, "p7", [2, 1, 3, 1, 2, 3, 2], props)
        n, steps = 64, 3000
    else:
        closure(ctx, exe, "p8", [2, 1, 3, 1, 2, 3, 2, 4], props)
        closure(ctx, exe, "p9", [1, 2, 3, 4, 5, 6, 7, 8, 9], props)
        n, steps = 300, 25000
    pr = [1 + rng.randrange(6) for _ in range(n)]
    impl_phase(ctx, "rand", exe, ["random", ctx.seed, steps, 2], ["".join(map(str, pr)), 1, 1], "TraceHeap", pdef(pr), consts(pr), props)
    ctx.assumptions += [
        "TLC and the TLA+ text of the contract in HeapOps.tla (HeapOK, TopContract, PopContract) are trusted",
        "the driver reads root/parent/left/right/size from the real structs",
    ]
    return finish(ctx)
