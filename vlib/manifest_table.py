"""Table from which bin/mkmanifest generates MANIFEST.json."""
HOOK_COMMITS = []
ENGINES = [
    {"name": "tree", "path": "spec/TreeOps.tla spec/Tree.tla spec/TraceTree.tla harness/drv_tree.c vlib/p_tree.py",
     "serves_properties": ["C01", "C02", "C15"],
     "kind_free_text": "link-level TLA+ model of bintree.c/rbtree.c model-checked by TLC; real-code closure + random histories recorded by a C driver and validated transition-by-transition by TLC"},
    {"name": "hash", "path": "spec/HashOps.tla spec/Hash.tla spec/TraceHash.tla spec/TraceHashCall.tla harness/drv_hash.c harness/drv_hashcall.c harness/alloc.h vlib/p_hash.py",
     "serves_properties": ["C03", "C04", "C17", "C19"],
     "kind_free_text": "bucket-level TLA+ model of hash.c (chains, clean bits, pending geometry, sweep index, hash-function calls as events) model-checked by TLC; real-code closure, random histories and hash-call sweeps validated by TLC"},
    {"name": "lists", "path": "spec/DListOps.tla spec/DList.tla spec/TraceDList.tla spec/SListOps.tla spec/SList.tla spec/TraceSList.tla harness/drv_dlist.c harness/drv_slist.c vlib/p_list.py",
     "serves_properties": ["C12", "C13", "C15"],
     "kind_free_text": "pointer-level TLA+ models of dlist.c / slist.c (sentinel, next/prev, tail pointer, count; up to three lists over one node pool) model-checked against the sequence contract; real-code closure and random histories validated by TLC"},
    {"name": "heap", "path": "spec/HeapOps.tla spec/Heap.tla spec/TraceHeap.tla harness/drv_heap.c vlib/p_heap.py",
     "serves_properties": ["C07", "C15"],
     "kind_free_text": "link-level TLA+ model of heap.c (slot navigation by the bits of the size, six-neighbour parent/child swap, sift up/down) model-checked against the max-element / completeness contract; real-code closure and random histories validated by TLC"},
]
TB = ("Trusted: TLC, the TLA+ text of the contract operators, the driver's serialiser/id mapping, gcc/glibc. "
      "The concrete model is not trusted: L1 tests it against the code, L0 against the contract. Closure only in the small scope stated in the evidence; beyond it seeded random histories.")
CHECKS = {
    "C01": dict(engine="tree", design_ref="§6 C01", technique="TLA+ model checking (TLC) + trace validation of real-code closure against the spec",
                text="TLC exhaustively checks the link-level model of bintree.c/rbtree.c (insert hinted/unhinted, erase, find, foreach both directions with every stop position, clear, swap, height) against the multiset contract in every reachable state of a 6-8 node pool with duplicate keys; a driver explores the real code to closure in the same scope (state counts must match) and TLC validates every recorded transition against both the concrete model (L1) and the contract (L2), plus seeded random histories on 40-200 element pools.",
                note=TB),
    "C02": dict(engine="tree", design_ref="§6 C02", technique="TLA+ model checking (TLC) + trace validation of real-code closure against the spec",
                text="Every red-black shape and colouring reachable within a 7-9 node pool is visited by TLC on the model and by the driver on the real rbtree.c; in every post-state TLC evaluates root-black, no red-red, equal black height, parent links and 2^height <= (n+1)^2 on the logged links/colours, and the value reported by cstl_rbtree_height; random histories with heavy duplication on 60-400 element pools.",
                note=TB),
    "C03": dict(engine="hash", design_ref="§6 C03", technique="TLA+ model checking (TLC) + trace validation of real-code closure against the spec",
                text="TLC explores the bucket-level model of hash.c to closure (<=3-4 buckets, 4-5 elements with a duplicate key, NULL/two functions, allocation failures, every stage of grow/shrink/function-change rehash incl. resize during a pending resize) checking live-set, size and find (no visit fn / accept x / accept none) contracts on every step; the driver reaches the same number of states on the real code and TLC validates every recorded transition (L1 exact post-state+events, L2 contract), plus seeded random histories on 40-64 elements / <=24 buckets.",
                note=TB),
    "C04": dict(engine="hash", design_ref="§6 C04", technique="TLA+ model checking (TLC) + trace validation of real-code closure against the spec",
                text="In every reachable table state (all rehash stages) foreach (every stop position, with and without the callback erasing and scribbling over the visited element), foreach_const and clear are applied on the model and on the real code; TLC checks the callback multiset equals the live set, the stop value is returned, the bucket array is released, and that every operation following clear+resize completes.",
                note=TB),
    "C17": dict(engine="hash", design_ref="§6 C17, §8", technique="TLA+ model checking (TLC) + trace validation; range of built-in hashes validated on observed calls only",
                text="Fail-stop half: model-checked and trace-validated to closure with bad hash functions returning m, m+1 and SIZE_MAX under current and pending geometry for every keyed entry point and internal evaluator: outcome is abort iff a logged hash call was out of range, and no memory damage (guard bytes) otherwise. Range half: every call of cstl_hash_div/cstl_hash_mul observed in a boundary-biased sweep (Fibonacci worst cases, powers of two +-1, 2^24/2^32 neighbours, SIZE_MAX, random 64-bit) is validated by TLC with r < m on 16-bit limbs - exploration strength only, not a decision for all keys and sizes (single-precision rounding is outside TLC).",
                note=TB + " The float-grid quantifier of C17 is not covered; see DESIGN §8."),
    "C19": dict(engine="hash", design_ref="§6 C19", technique="TLA+ model checking (TLC) + trace validation of real-code closure against the spec",
                text="On every keyed transition of the closure TLC checks: at most three buckets go dirty->clean, the sweep index advances or the rehash finishes, rhclean <= count (bounded completion); after every satisfiable resize the target geometry has the requested count and function; cstl_hash_load (logged x10^6) equals size/target count; with no rehash pending a keyed op makes exactly one hash call with (key, count, most recently requested function).",
                note=TB),
    "C12": dict(engine="lists", design_ref="§6 C12", technique="TLA+ model checking (TLC) + trace validation of real-code closure against the spec",
                text="Pointer-level model of dlist.c (insert/erase/push/pop, reverse's mirror-swap loop and adjacent-pair path, concat, swap with re-anchoring, clear, foreach with stop and with the callback erasing the visited element, find both directions, merge sort) checked by TLC against the sequence contract for every operation in every reachable arrangement of 4 nodes over 3 lists, 5-6 nodes over 1-2 lists (lengths 0..6); the driver reaches the same states on the real code; TLC validates every transition: forward walk = reference sequence, backward walk = its mirror, sizes, return values, callback sequences; random histories on 40-100 nodes.",
                note=TB),
    "C13": dict(engine="lists", design_ref="§6 C13", technique="TLA+ model checking (TLC) + trace validation of real-code closure against the spec",
                text="Pointer-level model of slist.c (insert_after/erase_after, push/pop, reverse loop, concat, swap fix-up, clear, foreach, merge sort) with the tail invariant (t is the true last node or the head link, its next is NULL) evaluated on the real fields after every operation of the closure (every position of erase/insert relative to the tail, lengths 0..6, one to three lists), pop_front on empty included; random histories beyond.",
                note=TB),
    "C07": dict(engine="heap", design_ref="§6 C07", technique="TLA+ model checking (TLC) + trace validation of real-code closure against the spec",
                text="Every heap shape reachable by push/pop/clear over pools of 6-9 elements with duplicate priorities is visited by TLC on the link-level model and by the driver on the real heap.c (equal state counts); for every transition TLC checks that get/pop return a held element with maximal priority, pop removes exactly it, NULL on empty, size, and on the logged links: completeness (level-order slots = 1..size), parent >= child, parent links; cstl_fls is checked against its contract on 2^i-1, 2^i, 2^i+1 for all 64 bit positions; random interleavings on 64-300 elements with <=6 distinct priorities.",
                note=TB),
}
NOT_APPLICABLE = {}
