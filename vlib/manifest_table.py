"""Table from which bin/mkmanifest generates MANIFEST.json."""
HOOK_COMMITS = []
ENGINES = [
    {"name": "tree", "path": "spec/TreeOps.tla spec/Tree.tla spec/TraceTree.tla harness/drv_tree.c vlib/p_tree.py",
     "serves_properties": ["C01", "C02", "C15"],
     "kind_free_text": "link-level TLA+ model of bintree.c/rbtree.c model-checked by TLC; real-code closure + random histories recorded by a C driver and validated transition-by-transition by TLC"},
]
TB = ("Trusted: TLC, the TLA+ text of the contract operators, the driver's serialiser/id mapping, gcc/glibc. "
      "The concrete model is not trusted: L1 tests it against the code, L0 against the contract. Closure only in the small scope stated in the evidence; beyond it seeded random histories.")
CHECKS = {
    "C01": dict(engine="tree", design_ref="§6 C01", technique="TLA+ model checking (TLC) + trace validation of real-code closure against the spec",
                text="TLC exhaustively checks the link-level model of bintree.c/rbtree.c (insert hinted/unhinted, erase, find, foreach both directions with every stop position, clear, swap, height) against the multiset contract in every reachable state of a 6-8 node pool with duplicate keys; a driver explores the real code to closure in the same scope (state counts must match) and TLC validates every recorded transition against both the concrete model (L1) and the contract (L2), plus seeded random histories on 40-200 element pools.",
                note=TB),
    "C02": dict(engine="tree", design_ref="§6 C02", technique="TLA+ model checking (TLC) + trace validation of real-code closure against the spec",
                text="Every red-black shape and colouring reachable within a 7-9 node pool is visited by TLC on the model and by the driver on the real rbtree.c; in every post-state TLC evaluates root-black, no red-red, equal black height, parent links and 2^height <= (n+1)^2 on the logged links/colours, and the value reported by cstl_rbtree_height; random histories with heavy duplication on 60-400 element pools.",
                note=TB),
}
NOT_APPLICABLE = {}
