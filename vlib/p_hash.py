"""C03, C04, C17 (fail-stop half + observed range), C19: src/hash.c against HashOps.tla."""
import random, json
from .core import *

LIB = ["hash.c", "common.c"]
WRAP = ("malloc", "realloc", "calloc", "free")


def keystr(keys):
    return "".join("0123456789abcdefghijklmnopqrstuvwxyz"[k] for k in keys)


def header_of(ctx, exe, scope):
    out = ctx.work / "hdr.ndjson"
    empty = ctx.work / "empty.txt"
    empty.write_text("")
    run_driver(ctx, exe, ["replay", empty, out, "--"] + scope)
    return json.loads(open(out).readline())


def defs(keys, mul):
    return "KO == " + tla_seq(keys) + "\nMT == " + tla_seq(tla_seq(r) for r in mul)


def consts(keys, maxb):
    return f"  NE = {len(keys)}\n  KeyOf <- KO\n  MaxB = {maxb}\n  MulTab <- MT\n  FIXED = TRUE"


def closure(ctx, exe, tag, keys, maxb, funcs, bad, swap, faults, probes, props):
    scope = [keystr(keys), maxb, 2, int(bad), int(swap), int(faults), probes]
    hdr = header_of(ctx, exe, scope)
    d = defs(keys, hdr["mul"])
    cfg = ("CONSTANTS\n" + consts(keys, maxb) + f"\n  Funcs = {{{','.join(map(str, funcs))}}}\n"
           f"  WithFaults = {'TRUE' if faults else 'FALSE'}\n  WithSwap = {'TRUE' if swap else 'FALSE'}\n"
           "SPECIFICATION Spec\nINVARIANT C03\nINVARIANT C04\nINVARIANT C17\nINVARIANT C19\n"
           "INVARIANT C04walk\nINVARIANT C19sweep\nINVARIANT C04reuse\nINVARIANT Repr\nCHECK_DEADLOCK FALSE\n")
    r = l0(ctx, tag, "Hash", d, cfg)
    impl_phase(ctx, "impl-" + tag, exe, ["explore"], scope, "TraceHash", d, consts(keys, maxb), props,
               expect_states=r.distinct)


def rand_phase(ctx, exe, tag, rng, ne, nkeys, maxb, steps, restarts, props, faults=1):
    keys = [rng.randrange(nkeys) for _ in range(ne)]
    scope = [keystr(keys), maxb, 2, 0, 1, faults, 2]
    hdr = header_of(ctx, exe, scope)
    impl_phase(ctx, tag, exe, ["random", ctx.seed, steps, restarts], scope, "TraceHash", defs(keys, hdr["mul"]),
               consts(keys, maxb), props)


def mul_div_sweep(ctx, exe, n):
    """C17 range half, as far as this family goes: record HashCall(f,k,m,r) events from the
    real cstl_hash_div / cstl_hash_mul on a boundary-biased sweep and let TLC judge r < m."""
    trace = ctx.work / "hashcalls.ndjson"
    rc, out = sh([str(exe), str(trace), str(ctx.seed), str(n)], timeout=600)
    if rc != 0:
        raise HarnessError("hashcall sweep failed: " + out[-2000:])
    name = "TV_hashcalls"
    parts, total = split_trace(trace, NCPU)

    def one(kp):
        k, p = kp
        nm = f"{name}_{k}"
        return tlc(ctx, f"tv-hashcalls-{k}", nm, mc_module(nm, "TraceHashCall"),
                   "SPECIFICATION TSpec\nINVARIANT Done\nCHECK_DEADLOCK FALSE\n", env={"TRACE": str(p)}, workers=1, heap="3g")
    with ThreadPoolExecutor(max_workers=NCPU) as ex:
        results = list(ex.map(one, list(enumerate(parts))))
    bad = []
    for r in results:
        if not (r.rc == 0 and any(x.startswith('"TRACE-END"') for x in r.prints)):
            raise HarnessError("TLC failed on hashcall sweep: " + r.out[-1500:])
        for x in r.prints:
            f = [y.strip().strip('"') for y in x.split(",")]
            if f[0] == "L2FAIL":
                bad.append(int(f[2]))
    for rid in sorted(bad)[:3]:
        hdr, rec = find_record(trace, rid)
        violation(ctx, f"built-in hash out of range: {json.dumps(rec)}", {"signature": f"hashcall:{rec.get('f')}", "record": rec})
    ctx.cov["traces_validated_against_impl"] += total
    ctx.cov["impl_runs"].append({"phase": "hashcall-sweep", "mode": "sweep", "calls_validated": total, "out_of_range": len(bad)})
    for r in sample_records(trace, 2):
        ctx.cov["samples"].append({"phase": "hashcall-sweep", "record": r})
    ctx.log(f"hashcall sweep: {total} calls of cstl_hash_div/mul validated, {len(bad)} out of range")
    for p in parts:
        os.unlink(p)


def run(ctx):
    props = {ctx.pid}
    exe = build(ctx, "drv_hash", "drv_hash.c", LIB, wrap=WRAP, flags=REL_FLAGS + ["-Wl,--allow-multiple-definition"])
    rng = random.Random(ctx.seed)
    K4 = [0, 1, 1, 2]
    K5 = [0, 1, 1, 2, 3]
    good = [0, 1, 2]
    if ctx.pid == "C17":
        badf = [0, 1, 2, 4, 5, 6]
        closure(ctx, exe, "bad3", K4, 3 if not ctx.quick else 2, badf, True, False, False, 1, props)
        exe2 = build(ctx, "drv_hashcall", "drv_hashcall.c", LIB)
        mul_div_sweep(ctx, exe2, 4000 if ctx.quick else 60000)
        rand_phase(ctx, exe, "rand", rng, 32, 12, 8, 1500 if ctx.quick else 15000, 2, props)
        ctx.notes.append("range of cstl_hash_mul for *all* keys and table sizes is a statement about single-precision rounding; "
                         "this check validates every observed call and a boundary-biased sweep only (DESIGN §8)")
    else:
        if ctx.quick:
            closure(ctx, exe, "q3", K4, 3, good, False, False, True, 1, props)
            rand_phase(ctx, exe, "rand", rng, 40, 12, 10, 2500, 2, props)
            # tables of 100-250 buckets: work per keyed operation must stay bounded however large the table is
            rand_phase(ctx, exe, "rand-big", rng, 120, 30, 250, 700, 1, props, faults=0)
        else:
            closure(ctx, exe, "q3", K4, 3, good, False, True, True, 2, props)
            closure(ctx, exe, "t4", K5, 4, good, False, False, False, 1, props)
            rand_phase(ctx, exe, "rand", rng, 64, 16, 24, 20000, 3, props)
            rand_phase(ctx, exe, "rand-big", rng, 200, 36, 600, 3000, 2, props, faults=0)
    ctx.assumptions += [
        "TLC and the TLA+ text of the contract operators in HashOps.tla / TraceHash.tla are trusted",
        "the driver's serialiser reads the real bucket array, clean bits and pending geometry from struct cstl_hash",
        "hash functions are the driver's logging functions (k%m, (k/2)%m, bad ones) plus cstl_hash_mul tabulated for the scope",
    ]
    return finish(ctx)
