"""C15 (clear) and C16 (allocation failure): cross-container properties decided on the
closures of the containers' own models (every state x clear, every state x failing allocation)."""
import random
from .core import *
from . import p_tree, p_heap, p_list, p_map, p_vec, p_str, p_hash, p_ptr, p_arr


def run_c15(ctx):
    props = {"C15"}
    q = ctx.quick
    # trees: clear (with a callback that scribbles over the element) in every reachable shape
    exe = build(ctx, "drv_tree", "drv_tree.c", p_tree.LIB)
    K = [1, 1, 2, 2, 3, 3] if q else [1, 1, 2, 2, 3, 3, 2]
    p_tree.closure(ctx, exe, "bst", K, False, False, 0, props)
    p_tree.closure(ctx, exe, "rb", K, True, False, 0, props)
    exe = build(ctx, "drv_heap", "drv_heap.c", p_heap.LIB)
    p_heap.closure(ctx, exe, "heap", [1, 1, 2, 2, 3, 3] if q else [2, 1, 3, 1, 2, 3, 2, 4], props)
    for pid in ("C12", "C13"):
        kind = p_list.KIND[pid]
        exe = build(ctx, "drv_" + kind[0], kind[3], kind[4])
        p_list.closure(ctx, kind, exe, kind[0], [1, 2, 1, 2] if q else [2, 1, 2, 1, 3], 2, props)      # (three lists: C12 / C13's own checks)
    exe = build(ctx, "drv_map", "drv_map.c", p_map.LIB, wrap=p_map.WRAP)
    p_map.closure(ctx, exe, "map", 3 if q else 4, props)
    # a map cleared in the middle of a random history (after erases, failed inserts, ...) and used again: whatever the
    # object keeps besides the tree must be as good as new too
    for nk, steps in ((6, 1500 if q else 20000), (24, 1000 if q else 20000)):
        impl_phase(ctx, f"rand-map{nk}", exe, ["random", ctx.seed, steps, 4], [nk, 1, 1], "TraceMap", p_map.kdef(nk), p_map.consts(nk), props)
    # beyond the closure: clear in the middle of random histories, elements reused afterwards
    rng = random.Random(ctx.seed)
    exe = build(ctx, "drv_tree2", "drv_tree.c", p_tree.LIB)
    rk = p_tree.rand_keys(rng, 12, 4)
    impl_phase(ctx, "rand-rb", exe, ["random", ctx.seed, 1500 if q else 15000, 2], p_tree.scope(rk, True, 1, 1),
               "TraceTree", p_tree.kdef(rk), p_tree.consts(rk, True), props)
    # clear on trees deeper than any closure can reach (degenerate plain binary trees)
    p_tree.deep_chain(ctx, exe, 160 if q else 400, props)
    # clear on containers of 10^5 - 10^6 elements (exactly once each, nothing touched afterwards, empty and reusable)
    from . import p_big
    p_big.big_phase(ctx, ["rb:100000", "bst:20000", "map:400000"] if q else ["rb:400000", "bst:30000", "map:1500000"])
    ctx.assumptions += [
        "the clear callback scribbles 0xA5 over the element's links (trees, heap, lists) - a later read of them by the library faults or corrupts the logged state; map nodes are freed by the library itself and checked through the allocator interposer (freed blocks are poisoned and must stay untouched)",
        "'usable like a fresh container' is decided by the post-state being the canonical initial state, from which the closure continues",
    ]
    return finish(ctx)


def run_c16(ctx):
    props = {"C16"}
    q = ctx.quick
    exe = build(ctx, "drv_map", "drv_map.c", p_map.LIB, wrap=p_map.WRAP)
    p_map.closure(ctx, exe, "map", 3 if q else 5, props)
    exe = build(ctx, "drv_vec", "drv_vec.c", p_vec.LIB, wrap=p_vec.WRAP)
    for esz, hasx in ([(4, True)] if q else [(1, False), (8, True)]):
        p_vec.closure(ctx, exe, esz, hasx, 3 if q else 5, props)
    narrow = build(ctx, "drv_str", "drv_str.c", p_str.LIB, wrap=p_str.WRAP)
    p_str.closure(ctx, narrow, "str", 1, 2 if q else 4, props)
    if not q:
        wide = build(ctx, "drv_wstr", "drv_str.c", p_str.LIB, wrap=p_str.WRAP, defs=["WIDE"])
        p_str.closure(ctx, wide, "wstr", 4, 3, props)
    exe = build(ctx, "drv_hash", "drv_hash.c", p_hash.LIB, wrap=p_hash.WRAP, flags=REL_FLAGS + ["-Wl,--allow-multiple-definition"])
    p_hash.closure(ctx, exe, "hash", [0, 1, 1] if q else [0, 1, 1, 2], 3, [0, 1, 2], False, False, True, 0 if q else 1, props)
    # random histories with failing allocations on tables of up to 24 buckets (growth by less than half, shrinks)
    hexe = build(ctx, "drv_hash2", "drv_hash.c", p_hash.LIB, wrap=p_hash.WRAP, flags=REL_FLAGS + ["-Wl,--allow-multiple-definition"])
    p_hash.rand_phase(ctx, hexe, "rand-hash", random.Random(ctx.seed), 30, 12, 24, 3000 if q else 20000, 2, props, faults=1)
    exe = build(ctx, "drv_ptr", "drv_ptr.c", p_ptr.LIB, wrap=p_ptr.WRAP)
    p_ptr.closure(ctx, exe, "ptr", 2, 1, 1, True, False, props)
    exe = build(ctx, "drv_arr", "drv_arr.c", p_arr.LIB, wrap=p_arr.WRAP)
    p_arr.closure(ctx, exe, "arr", 2, 2, True, False, props)
    ctx.assumptions += [
        "allocation failure is an argument of every allocating action: in the closure every allocating operation is applied with each of its allocator calls failing in every reachable state, and exploration continues from the resulting state (so every failure pattern along every history in scope is covered, not a fixed list of scripts)",
        "leak / double-free audit: the interposer's live-block count is part of every logged state and must equal what the model's state keeps alive",
    ]
    return finish(ctx)


def run(ctx):
    return run_c15(ctx) if ctx.pid == "C15" else run_c16(ctx)
