"""C09: src/vector.c against VecOps.tla (+ VecWord.tla: the size arithmetic in a small word)."""
import random
from .core import *

LIB = ["vector.c", "array.c", "memory.c", "common.c"]
WRAP = ("malloc", "realloc", "calloc", "free")


def consts(esz, hasx):
    return f"  Esz = {esz}\n  HasX = {int(hasx)}"        # 0 none, 1 (True) both callbacks, 2 constructor only, 3 destructor only


def closure(ctx, exe, esz, hasx, maxn, props):
    tag = f"e{esz}{['', 'x', 'c', 'd'][int(hasx)]}"
    cfg = "CONSTANTS\n" + consts(esz, hasx) + f"\n  MaxN = {maxn}\nSPECIFICATION Spec\nINVARIANT InvOK\nINVARIANT InvStorage\nINVARIANT InvAt\n"
    r = l0(ctx, tag, "Vector", "", cfg)
    impl_phase(ctx, "impl-" + tag, exe, ["explore"], [esz, int(hasx), maxn, 1], "TraceVec", "", consts(esz, hasx), props,
               expect_states=2 * r.distinct)   # the driver also swaps with a second (empty) vector object


def vec_line(o):
    op = o["op"]
    kind = {"n": 0, "max": 1, "maxdiv": 2, "pow": 3}
    if op in ("reserve", "resize"):
        return f"{0 if op == 'reserve' else 1} {kind[o['t']['k']]} {o['t']['n']} {0 if o['a'] else 1}"
    if op == "shrink": return f"2 {0 if o['a'] else 1}"
    if op == "clear": return "3"
    if op == "sort": return f"4 {o['algo']}"
    if op == "reverse": return "5"
    raise HarnessError(f"no driver line for generated operation {o}")


def generated(ctx, exe, tag, esz, hasx, maxn, depth, num, props):
    """spec -> code: walks of the Vector machine chosen by TLC's simulator, replayed into src/vector.c"""
    gen_replay(ctx, tag, "GenVector", "", consts(esz, hasx) + f"\n  MaxN = {maxn}", depth, num, vec_line, exe, [esz, int(hasx), maxn, 1],
               "TraceVec", consts(esz, hasx), props)


def run(ctx):
    props = {ctx.pid}
    exe = build(ctx, "drv_vec", "drv_vec.c", LIB, wrap=WRAP)
    rng = random.Random(ctx.seed)
    # the arithmetic of set_capacity for *every* request in a 6-bit word
    cfg = "CONSTANTS\n  W = 64\n  Sizes = {1,2,3,4,8,16}\n  Guarded = TRUE\n  AllocLimit = 40\nSPECIFICATION Spec\nINVARIANT StorageOK\nCHECK_DEADLOCK FALSE\n"
    l0(ctx, "word64", "VecWord", "", cfg)
    sizes = [(1, False), (4, True), (2, 3), (64, 2)] if ctx.quick else [(1, True), (2, False), (3, True), (4, False), (8, 2), (16, 3), (64, True), (5, 2), (12, 3)]
    for esz, hasx in sizes:
        closure(ctx, exe, esz, hasx, 4 if ctx.quick else 5, props)
    if ctx.quick:
        generated(ctx, exe, "gen-e3x", 3, True, 12, 30, 10, props)
    else:
        generated(ctx, exe, "gen-e3x", 3, True, 20, 60, 100, props)
        generated(ctx, exe, "gen-e16", 16, False, 20, 60, 100, props)
    if not ctx.quick:
        # objects set up with the CSTL_*_INITIALIZER macros instead of the init functions: same closure, same model
        closure(ctx, build(ctx, "drv_vec_macro", "drv_vec.c", LIB, wrap=WRAP, defs=["USE_INITIALIZER"]), 4, False, 4, props)
    for esz, hasx in ([(8, True)] if ctx.quick else [(1, False), (24, True)]):
        impl_phase(ctx, f"rand-e{esz}", exe, ["random", ctx.seed, 2500 if ctx.quick else 20000, 3], [esz, int(hasx), 150 if ctx.quick else 240, 1],
                   "TraceVec", "", consts(esz, hasx), props)
    # a million 12-byte elements with constructor and destructor: counts, bytes kept across reallocations, capacities
    from . import p_big
    p_big.big_phase(ctx, ["vec:1000000", "vechuge:1"] if ctx.quick else ["vec:1000000", "vec:5000000", "vechuge:1"])
    ctx.assumptions += [
        "TLC and the TLA+ text of StorageOK / KeepOK / XtorOK / C09OK are trusted",
        "allocation sizes and liveness come from the link-time allocator interposer (harness/alloc.h), which refuses requests >= 2^40 bytes",
        "huge sizes are symbolic terms in the model; the driver maps them to SIZE_MAX-n and SIZE_MAX/esz+n",
    ]
    return finish(ctx)
