"""
core.py — shared machinery of /verif/bin/check.

Nothing here knows a property.  It builds drivers from /repo's working tree,
runs TLC (model checking, simulation, trace validation), collects the numbers
that go into the evidence file and implements the verdict policy of DESIGN §1:

  exit 0  property held on everything explored (known findings printed)
  exit 1  VIOLATION property=<id> replay=<path>   (an L2 / contract failure on
          a transition executed by the real code, or a crash / hang of it)
  exit 2  the check itself is broken (build error, TLC error, L0 failure of
          the shipped model) — never reported as a violation
"""
import json, os, re, shutil, subprocess, sys, time, hashlib
from pathlib import Path
from concurrent.futures import ThreadPoolExecutor

VERIF = Path(__file__).resolve().parent.parent
REPO = Path(os.environ.get("VERIF_REPO", "/repo"))
SPEC = VERIF / "spec"
HARNESS = VERIF / "harness"
JAR = "/opt/veriftools/tla/tla2tools.jar:/opt/veriftools/tla/CommunityModules-deps.jar"
NCPU = os.cpu_count() or 4

REL_FLAGS = ["-std=gnu99", "-O2", "-DNDEBUG", "-D_POSIX_C_SOURCE=199309L", "-fno-builtin-malloc", "-fstack-protector-all"]   # a local array overrun aborts instead of corrupting quietly
DBG_FLAGS = ["-std=gnu99", "-O0", "-g", "-D_POSIX_C_SOURCE=199309L"]
GUARD = "CSTL_VERIF"


class HarnessError(Exception):
    pass


class Ctx:
    def __init__(self, pid, tier, seed):
        self.pid, self.tier, self.seed = pid, tier, seed
        self.t0 = time.time()
        self.work = VERIF / ".work" / f"{pid}-{tier}"
        if self.work.exists():
            shutil.rmtree(self.work)
        self.work.mkdir(parents=True)
        self.cov = {
            "states": 0, "transitions": 0, "traces_validated_against_impl": 0,
            "samples": [], "impl_states": 0, "exhaustive": False,
            "l0_runs": [], "impl_runs": [], "spec_drift": [], "coverage_by_action": {},
        }
        self.assumptions = []
        self.violations = []      # dicts
        self.known = []           # known-finding lines printed
        self.notes = []

    @property
    def quick(self):
        return self.tier == "quick"

    def log(self, *a):
        print(f"[{self.pid} {time.time() - self.t0:6.1f}s]", *a, flush=True)


# ------------------------------------------------------------------ processes
def sh(cmd, timeout=600, cwd=None, env=None, check=False):
    e = dict(os.environ)
    if env:
        e.update(env)
    try:
        p = subprocess.run(cmd, cwd=cwd, env=e, stdout=subprocess.PIPE, stderr=subprocess.STDOUT,
                           timeout=timeout, text=True, errors="replace")
    except subprocess.TimeoutExpired as ex:
        out = ex.stdout or ""
        if isinstance(out, bytes):
            out = out.decode(errors="replace")
        return 124, out
    if check and p.returncode != 0:
        raise HarnessError(f"command failed ({p.returncode}): {' '.join(map(str, cmd))}\n{p.stdout[-4000:]}")
    return p.returncode, p.stdout


# ------------------------------------------------------------------ building drivers
LIB_FLAGS = []      # when non-empty: the library sources are compiled separately with these flags (a client and a
                    # library built with different settings - NDEBUG, optimisation - as a shipped libcstl.a is used)


def build(ctx, name, driver, libsrcs, flags=None, wrap=(), extra_srcs=(), cc="gcc", defs=(), libs=()):
    """Compile harness/<driver> together with the given /repo/src files."""
    exe = ctx.work / name
    libparts = [str(REPO / "src" / s) for s in libsrcs]
    if LIB_FLAGS:
        od = ctx.work / (name + "_lib")
        od.mkdir(exist_ok=True)
        libparts = []
        for s_ in libsrcs:
            o = od / (s_.replace(".c", ".o"))
            rc, out = sh([cc] + list(LIB_FLAGS) + ["-D" + GUARD, "-I", str(REPO / "include"), "-c", str(REPO / "src" / s_), "-o", str(o)], timeout=300)
            if rc != 0:
                raise HarnessError(f"library build failed: {s_}\n{out[-6000:]}")
            libparts.append(str(o))
    cmd = [cc] + list(flags or REL_FLAGS) + ["-D" + GUARD] + ["-D" + d for d in defs] + \
          ["-I", str(REPO / "include"), "-I", str(HARNESS), "-o", str(exe),
           str(HARNESS / driver)] + libparts + \
          [str(HARNESS / s) for s in extra_srcs]
    if wrap:
        cmd += ["-DVERIF_WRAP_ALLOC", "-Wl," + ",".join("--wrap=" + w for w in wrap)]
    cmd += ["-lm"] + list(libs)
    rc, out = sh(cmd, timeout=300)
    if rc != 0:
        raise HarnessError(f"driver build failed: {name}\n{out[-6000:]}")
    if not hasattr(ctx, "builds"):
        ctx.builds = {}
    ctx.builds[str(exe)] = {"name": name, "driver": driver, "libsrcs": list(libsrcs), "flags": list(flags or REL_FLAGS), "wrap": list(wrap),
                            "extra_srcs": list(extra_srcs), "cc": cc, "defs": list(defs), "libs": list(libs)}
    return exe


def run_driver(ctx, exe, args, timeout=900, env=None):
    """Run a driver; returns (summary dict, died) — died: killed by a signal / exit 70."""
    rc, out = sh([str(exe)] + [str(a) for a in args], timeout=timeout, env=env)
    summ = {}
    for line in out.splitlines():
        if line.startswith("{"):
            try:
                summ = json.loads(line)
            except Exception:
                pass
    died = rc not in (0,)
    if rc in (64, 71, 72, 73):
        raise HarnessError(f"driver usage/IO error rc={rc}: {out[-2000:]}")
    summ["_rc"] = rc
    summ["_out"] = out[-2000:]
    return summ, died


# ------------------------------------------------------------------ TLC
class TLCResult:
    def __init__(self, rc, out):
        self.rc, self.out = rc, out
        m = re.search(r"(\d+) states generated, (\d+) distinct states found", out)
        self.generated = int(m.group(1)) if m else 0
        self.distinct = int(m.group(2)) if m else 0
        m = re.search(r"depth of the complete state graph search is (\d+)", out)
        self.depth = int(m.group(1)) if m else 0
        self.violated = re.findall(r"Invariant (\S+) is violated", out) + \
            re.findall(r"The invariant of (\S+) is equal to FALSE", out) + \
            re.findall(r"Action property (\S+) is violated", out) + \
            (["<temporal>"] if "Temporal properties were violated" in out else [])
        self.ok = (rc == 0 and "No error has been found" in out) or \
                  (rc == 0 and "Finished in" in out and not self.violated and "Error:" not in out)
        self.prints = re.findall(r"^<<(.*)>>$", out, re.M)

    def coverage(self):
        """per-action 'taken' counts from -coverage output: {action: distinct}"""
        cov = {}
        for m in re.finditer(r"^<(\w+) line \d+, col \d+ to line \d+, col \d+ of module (\w+)>: (\d+):(\d+)", self.out, re.M):
            cov[m.group(1)] = cov.get(m.group(1), 0) + int(m.group(4))
        return cov


def tlc(ctx, tag, module, module_text, cfg_text, env=None, workers=None, timeout=1800,
        simulate=None, coverage=False, heap="4g", extra=()):
    d = ctx.work / f"tlc-{tag}"
    d.mkdir(parents=True, exist_ok=True)
    (d / f"{module}.tla").write_text(module_text)
    (d / f"{module}.cfg").write_text(cfg_text)
    cmd = ["java", f"-Xmx{heap}", "-Xss256m", "-XX:+UseParallelGC", f"-DTLA-Library={SPEC}", "-cp", JAR, "tlc2.TLC",
           "-workers", str(workers or NCPU), "-metadir", str(d / "md"), "-config", f"{module}.cfg"]
    if coverage:
        cmd += ["-coverage", "1"]
    if simulate:
        cmd += ["-simulate", simulate]
    cmd += list(extra) + [f"{module}.tla"]
    rc, out = sh(cmd, timeout=timeout, cwd=d, env=env)
    (d / "out.txt").write_text(out)
    shutil.rmtree(d / "md", ignore_errors=True)
    return TLCResult(rc, out)


def mc_module(name, extends, defs=""):
    return f"---- MODULE {name} ----\nEXTENDS {extends}\n{defs}\n====\n"


def l0(ctx, tag, extends, defs, cfg, timeout=1800, workers=None, heap="8g", expect_actions=(), coverage=False):
    """Exhaustive model checking of a shipped spec.  Failure = broken check (exit 2)."""
    t = time.time()
    mname = "MC_" + re.sub(r"\W", "_", tag)
    r = tlc(ctx, "l0-" + tag, mname, mc_module(mname, extends, defs), cfg,
            timeout=timeout, workers=workers, coverage=coverage, heap=heap)
    if not r.ok:
        raise HarnessError(f"L0 model check {tag} failed (rc={r.rc}, violated={r.violated}); see {ctx.work}/tlc-l0-{tag}/out.txt\n"
                           + r.out[-3000:])
    cov = r.coverage()
    for a in (expect_actions if coverage else ()):
        if cov.get(a, 0) == 0:
            raise HarnessError(f"L0 {tag}: action {a} never taken (vacuous model run)")
    ctx.cov["states"] += r.distinct
    ctx.cov["transitions"] += r.generated
    ctx.cov["l0_runs"].append({"model": tag, "distinct_states": r.distinct, "states_generated": r.generated,
                               "depth": r.depth, "wall_s": round(time.time() - t, 1)})
    for k, v in cov.items():
        ctx.cov["coverage_by_action"][f"{tag}.{k}"] = v
    ctx.log(f"L0 {tag}: {r.distinct} distinct states, {r.generated} generated, depth {r.depth}")
    return r


# ------------------------------------------------------------------ trace validation
LAST_GROUPS = 0
_SID = re.compile(r'^\{"id":\d+,"sid":(-?\d+),')


def split_trace(path, nshards):
    """Split an NDJSON trace (header line first) into shards that each start with the header.

    Records of the engine-based drivers carry "sid"; in a closure (mode explore) the records of one state are
    contiguous and are exactly the operations the driver applied in that state.  Every such record gets a field
    "g": the size of its group on the group's first record, 0 elsewhere (and everywhere in other modes), and shards
    are cut between groups only - the trace specifications compare the group with the model's own OpSet."""
    with open(path) as f:
        header = f.readline()
        lines = f.readlines()
    n = len(lines)
    if n == 0:
        return [], 0
    explore = '"mode":"explore"' in header
    global LAST_GROUPS
    LAST_GROUPS = 0
    starts = [0]                      # indexes where a shard may begin
    if lines and _SID.match(lines[0]):
        i = 0
        while i < n:
            m = _SID.match(lines[i])
            j = i + 1
            if m and explore:
                while j < n:
                    m2 = _SID.match(lines[j])
                    if not m2 or m2.group(1) != m.group(1):
                        break
                    j += 1
            if explore:
                LAST_GROUPS += 1
            for k in range(i, j):
                mk = _SID.match(lines[k])
                if mk:
                    lines[k] = lines[k][:mk.end()] + ('"g":%d,' % ((j - i) if (k == i and explore) else 0)) + lines[k][mk.end():]
            if i:
                starts.append(i)
            i = j
    else:
        starts = list(range(n))
    nshards = max(1, min(nshards, (n + 199) // 200))
    per = (n + nshards - 1) // nshards
    out, begin, s = [], 0, 0
    bounds = starts[1:] + [n]
    last = 0
    for b in bounds:
        if b - begin >= per or b == n:
            p = Path(str(path) + f".s{s}")
            with open(p, "w") as f:
                f.write(header)
                f.writelines(lines[begin:b])
            out.append(p)
            s += 1
            begin = b
    return out, n


def validate(ctx, tag, trace_module, defs, consts, trace, levels=(1, 2), shards=None, timeout=1800, heap="3g"):
    """Judge a recorded trace with TLC.  Returns dict(n, l2=[(prop, id)], l1=[id])."""
    shards = shards or max(1, NCPU // len(levels))
    parts, n = split_trace(trace, shards)
    res = {"n": n, "l2": [], "l1": [], "errors": []}
    if 1 in levels and LAST_GROUPS and "OpsOK(" in (SPEC / f"{trace_module}.tla").read_text():
        res["opset_states"] = LAST_GROUPS      # states in which the applied operations are compared with the model's OpSet
    if n == 0:
        return res
    jobs = []
    for lv in levels:
        cfg = "CONSTANTS\n" + consts + f"\n  Level = {lv}\nSPECIFICATION TSpec\nINVARIANT Done\nCHECK_DEADLOCK FALSE\n"
        for k, p in enumerate(parts):
            jobs.append((lv, k, p, cfg))

    def one(job):
        lv, k, p, cfg = job
        name = "TV_" + re.sub(r"\W", "_", tag) + f"_{lv}_{k}"
        r = tlc(ctx, f"tv-{tag}-{lv}-{k}", name, mc_module(name, trace_module, defs), cfg,
                env={"TRACE": str(p)}, workers=1, timeout=timeout, heap=heap)
        return lv, k, p, r

    with ThreadPoolExecutor(max_workers=NCPU) as ex:
        results = list(ex.map(one, jobs))
    for lv, k, p, r in results:
        nrec = sum(1 for _ in open(p)) - 1
        ended = any(x.startswith('"TRACE-END"') for x in r.prints)
        for x in r.prints:
            parts_ = [y.strip().strip('"') for y in x.split(",")]
            if parts_[0] == "L2FAIL":
                res["l2"].append((parts_[1], int(parts_[2])))
            elif parts_[0] == "L1DRIFT":
                res["l1"].append(int(parts_[2]))
            elif parts_[0] == "OPSDIFF":
                # in this state the driver did not apply exactly the operations of the model's OpSet
                res["l1"].append(int(parts_[2]))
                res.setdefault("opsdiff", []).append(int(parts_[2]))
        if not (r.rc == 0 and ended):
            if lv == 1:
                # the concrete model could not even be evaluated on a logged state:
                # that is drift of the model, never an alarm
                res["l1"].append(-1)
                ctx.cov["spec_drift"].append(f"{tag}: L1 evaluation stopped in shard {k} (see tlc-tv-{tag}-{lv}-{k}/out.txt)")
            else:
                res["errors"].append(f"TLC failed on shard {k} level {lv} rc={r.rc}: {r.out[-1500:]}")
    for p in parts:
        try:
            os.unlink(p)
        except OSError:
            pass
    if res["errors"]:
        raise HarnessError("trace validation error:\n" + "\n".join(res["errors"]))
    return res


def sanitize_trace(trace):
    """After the driver died: keep the longest prefix of well-formed JSON lines."""
    good = []
    try:
        with open(trace, errors="replace") as f:
            for line in f:
                try:
                    json.loads(line)
                except Exception:
                    break
                good.append(line)
    except OSError:
        pass
    if not good:
        good = ['{"id":0,"hdr":true}\n']
    with open(trace, "w") as f:
        f.writelines(good)


def find_record(trace, rid):
    with open(trace) as f:
        hdr = f.readline()
        for line in f:
            if line.startswith('{"id":%d,' % rid):
                return json.loads(hdr), json.loads(line)
    return None, None


def op_histogram(trace):
    h = {}
    with open(trace) as f:
        f.readline()
        for line in f:
            m = re.search(r'"op":"([^"]+)"', line)
            if m:
                h[m.group(1)] = h.get(m.group(1), 0) + 1
            m = re.search(r'"out":"([^"]+)"', line)
            if m and m.group(1) != "ok":
                h["outcome:" + m.group(1)] = h.get("outcome:" + m.group(1), 0) + 1
    return h


def sample_records(trace, k=3):
    out = []
    with open(trace) as f:
        f.readline()
        lines = f.readlines()
    if not lines:
        return out
    step = max(1, len(lines) // k)
    for i in range(0, len(lines), step):
        try:
            r = json.loads(lines[i])
            out.append(r)
        except Exception:
            pass
        if len(out) >= k:
            break
    return out


# ------------------------------------------------------------------ verdicts
def load_known():
    p = VERIF / "known_findings.json"
    if p.exists():
        return json.loads(p.read_text())
    return {"findings": [], "fixed": []}


def violation(ctx, what, detail):
    """Record a violation; matching known findings are reported as KNOWN-FINDING instead."""
    kf = load_known()
    sig = detail.get("signature", "")
    for f in kf.get("findings", []):
        if f.get("property") == ctx.pid and f.get("signature") and f["signature"] == sig:
            line = f"KNOWN-FINDING: property={ctx.pid} {f.get('what', what)}"
            if line not in ctx.known:
                ctx.known.append(line)
                print(line, flush=True)
            return
    n = len(ctx.violations) + 1
    rp = VERIF / "evidence" / "replay"
    rp.mkdir(parents=True, exist_ok=True)
    path = rp / f"{ctx.pid}-{ctx.tier}-{n}.json"
    detail = dict(detail)
    detail.update({"property": ctx.pid, "what": what, "tier": ctx.tier, "seed": ctx.seed})
    path.write_text(json.dumps(detail, indent=1, default=str))
    ctx.violations.append({"what": what, "replay": str(path)})
    print(f"VIOLATION property={ctx.pid} replay={path}", flush=True)
    print(f"  {what}", flush=True)


def replay_recipe(ctx, exe, scope, rec, trace_module, defs, consts):
    """How to re-execute exactly this transition: the operations that reach its pre-state (engine `pathof`),
    the build of the driver, and the trace specification that judges it."""
    r = {"build": getattr(ctx, "builds", {}).get(str(exe)), "scope": [str(x) for x in scope.get("scope", [])],
         "trace_module": trace_module, "defs": defs, "consts": consts}
    try:
        if scope.get("mode") == "explore" and rec and "sid" in rec:
            rc, out = sh([str(exe), "pathof", str(rec["sid"]), "--"] + r["scope"], timeout=300)
            if rc == 0:
                r["path_ops"] = [l for l in out.splitlines() if l and (l[0].isdigit() or l.startswith("reset"))]
    except Exception:
        pass
    return r


def judge_trace(ctx, tag, trace, res, props, scope, summ=None, died=False, max_report=3, recipe=None):
    """Turn validation results into violations (only for the properties this check owns)."""
    reported = 0
    # props: the contracts this check owns; a dict maps a contract of the trace module to the property it is
    # reported under (a check may judge a phase by another property's contract that its own statement includes)
    mine = [((props[p] if isinstance(props, dict) else p), rid) for (p, rid) in res["l2"] if p in props]
    for p, rid in sorted(set(mine), key=lambda x: x[1]):
        if reported >= max_report:
            break
        hdr, rec = find_record(trace, rid)
        opdesc = {k: v for k, v in (rec or {}).items() if k not in ("pre", "post")}
        extra = recipe(rec) if recipe else {}
        violation(ctx, f"{tag}: contract {p} fails on real transition {json.dumps(opdesc)}",
                  {"signature": f"{tag}:{rec.get('op') if rec else '?'}", "phase": tag, "scope": scope, "header": hdr, "record": rec,
                   "contract": p, "replay": extra})
        reported += 1
    if died and not mine:
        violation(ctx, f"{tag}: driver died outside a recorded operation (memory corrupted by the library?) rc={summ.get('_rc') if summ else '?'}",
                  {"signature": f"{tag}:died", "phase": tag, "scope": scope, "output": (summ or {}).get("_out", "")})
    od = set(res.get("opsdiff", []))
    if od:
        ctx.cov["spec_drift"].append(f"{tag}: in {len(od)} states the driver did not apply exactly the operations of the model's OpSet, first record ids {sorted(od)[:5]}")
    l1 = [x for x in res["l1"] if x not in od]
    if l1:
        ctx.cov["spec_drift"].append(f"{tag}: {len(l1)} transitions differ from the concrete model (L1), first ids {sorted(l1)[:5]}")
    return len(mine)


def write_evidence(ctx, level="model_checking"):
    ev = {
        "property_id": ctx.pid, "tier": ctx.tier, "seed": ctx.seed, "level": level,
        "coverage": ctx.cov, "assumptions": ctx.assumptions,
        "wall_s": round(time.time() - ctx.t0, 1), "violations": len(ctx.violations),
    }
    if ctx.known:
        ev["coverage"]["known_findings_reported"] = ctx.known
    if ctx.violations:
        ev["coverage"]["violations_found"] = ctx.violations
    if ctx.notes:
        ev["coverage"]["notes"] = ctx.notes
    (VERIF / "evidence").mkdir(exist_ok=True)
    (VERIF / "evidence" / f"{ctx.pid}.json").write_text(json.dumps(ev, indent=1, default=str) + "\n")


def tla_seq(xs):
    return "<<" + ", ".join(str(x) for x in xs) + ">>"


# ------------------------------------------------------------------ a whole implementation-side phase
def impl_phase(ctx, tag, exe, mode_args, scope_args, trace_module, defs, consts, props,
               expect_states=None, levels=(1, 2), keep=False, timeout=1800, env=None):
    """Run the driver (explore / random / replay), validate the trace at L1 and L2, judge it.

    expect_states: the L0 distinct-state count of the same scope; equality (plus complete
    closure and no L1 drift) is what lets the evidence say `exhaustive`."""
    if ctx.violations and os.environ.get("VERIF_ALL_PHASES") != "1":
        # the verdict is decided; a library that breaks the contract can also make later phases arbitrarily
        # expensive (unbounded state spaces, hangs at every step).  VERIF_ALL_PHASES=1 runs them all the same.
        ctx.log(f"{tag}: skipped, an earlier phase already established a violation")
        ctx.notes.append(f"{tag}: not run (violation already established)")
        return {}, {"l1": [], "l2": []}
    t = time.time()
    trace = ctx.work / f"{tag}.ndjson"
    if mode_args[0] == "replay":
        args = ["replay", mode_args[1], trace] + list(mode_args[2:])
    else:
        args = [mode_args[0], trace] + list(mode_args[1:])
        if mode_args[0] == "explore" and len(mode_args) == 1:
            # a changed library may have an unbounded state space (e.g. a leaked reference count):
            # never explore more than a multiple of what the model says exists
            args.append(max(3000, 3 * (expect_states or 0)))
    summ, died = run_driver(ctx, exe, args + ["--"] + list(scope_args), timeout=min(timeout, 400), env=env)
    if summ.get("_rc") == 124:
        died = True
    if died:
        sanitize_trace(trace)
    res = validate(ctx, tag, trace_module, defs, consts, trace, levels=levels, timeout=timeout)
    sc = {"mode": mode_args[0], "args": [str(a) for a in mode_args[1:]], "scope": [str(s) for s in scope_args]}
    nviol = judge_trace(ctx, tag, trace, res, props, sc, summ=summ, died=died,
                        recipe=lambda rec: replay_recipe(ctx, exe, sc, rec, trace_module, defs, consts))
    if not nviol and summ.get("fatal") and mode_args[0] in ("explore", "random") and not (env or {}).get("VERIF_SKIP_FATAL"):
        # the library crashed or hung in an operation the property under check says nothing about, and the driver stopped
        # there: what it had explored up to then is not a verdict.  Once more, going on around such outcomes.
        ctx.notes.append(f"{tag}: an operation ended with a crash / hang that {', '.join(sorted(props))} does not judge; exploration repeated around such outcomes")
        return impl_phase(ctx, tag + "-around", exe, mode_args, scope_args, trace_module, defs, consts, props, expect_states=None,
                          levels=(2,), keep=keep, timeout=timeout, env=dict(env or {}, VERIF_SKIP_FATAL="1"))
    ctx.cov["traces_validated_against_impl"] += res["n"]
    run = {"phase": tag, "mode": mode_args[0], "scope": " ".join(str(s) for s in scope_args),
           "transitions_validated": res["n"], "impl_states": summ.get("impl_states"),
           "l2_failures": nviol, "l1_mismatches": len(res["l1"]), "wall_s": round(time.time() - t, 1)}
    if expect_states is not None:
        run["model_states"] = expect_states
        run["opset_compared_in_states"] = res.get("opset_states", 0)
        run["bisimilar_in_scope"] = bool(summ.get("complete") and summ.get("impl_states") == expect_states
                                         and not res["l1"] and not nviol)
        if summ.get("complete") and summ.get("impl_states") != expect_states:
            ctx.cov["spec_drift"].append(f"{tag}: implementation reaches {summ.get('impl_states')} states, model {expect_states}")
    if summ.get("impl_states"):
        ctx.cov["impl_states"] += summ["impl_states"]
    for k, v in op_histogram(trace).items():
        ctx.cov["coverage_by_action"][k] = ctx.cov["coverage_by_action"].get(k, 0) + v
    ctx.cov["impl_runs"].append(run)
    if len(ctx.cov["samples"]) < 6:
        for r in sample_records(trace, 2):
            ctx.cov["samples"].append({"phase": tag, "record": r})
    ctx.log(f"{tag}: {res['n']} real transitions validated, impl_states={summ.get('impl_states')}, "
            f"L2 failures={nviol}, L1 mismatches={len(res['l1'])}")
    if not keep and not nviol:
        try:
            os.unlink(trace)
        except OSError:
            pass
    return run, res


def finish(ctx, level="model_checking"):
    runs = ctx.cov["impl_runs"]
    ctx.cov["exhaustive"] = bool(runs) and all(r.get("bisimilar_in_scope", True) for r in runs if r["mode"] == "explore") \
        and any(r["mode"] == "explore" for r in runs) and not ctx.violations
    write_evidence(ctx, level)
    # remove scratch output unless a violation needs it
    if not ctx.violations:
        shutil.rmtree(ctx.work, ignore_errors=True)
    return 1 if ctx.violations else 0


# ------------------------------------------------------------------ behaviours generated by TLC, replayed into the code
def gen_replay(ctx, tag, gen_module, defs, consts, depth, num, to_line, exe, scope_args, trace_module, tconsts, props, tdefs=None, per_walk=6):
    """Simulate the model with a history variable, print each behaviour as JSON (Emit constraint), turn every
    behaviour into an op script for the driver's replay mode, and validate the recorded trace (L1 + L2)."""
    if ctx.violations and os.environ.get("VERIF_ALL_PHASES") != "1":
        ctx.log(f"{tag}: skipped, an earlier phase already established a violation")
        return {}
    cfg = ("CONSTANTS\n" + consts + f"\n  GenDepth = {depth}\nSPECIFICATION GSpec\nCONSTRAINT Emit\nCONSTRAINT Bound\nCHECK_DEADLOCK FALSE\n")
    name = "GEN_" + re.sub(r"\W", "_", tag)
    r = tlc(ctx, "gen-" + tag, name, mc_module(name, gen_module, defs), cfg, simulate=f"num={num}", workers=4, timeout=600,
            extra=["-depth", str(depth + 2), "-seed", str(ctx.seed)])
    behaviours = []
    for m in re.finditer(r'^"(\[.*\])"$', r.out, re.M):
        try:
            behaviours.append(json.loads(m.group(1).encode().decode("unicode_escape")))
        except Exception:
            pass
    if not behaviours:
        raise HarnessError(f"TLC produced no behaviours for {tag}: {r.out[-1500:]}")
    # the simulator evaluates the constraint on every successor of the last state of a walk, so one walk comes
    # out as many behaviours differing in their final operation only: keep a few per walk
    seen, kept = {}, []
    for b in behaviours:
        k = json.dumps(b[:-1], sort_keys=True)
        seen[k] = seen.get(k, 0) + 1
        if seen[k] <= per_walk:
            kept.append(b)
    behaviours = kept
    script = ctx.work / f"{tag}.ops"
    with open(script, "w") as f:
        for b in behaviours:
            f.write("reset\n")
            for o in b:
                f.write(to_line(o) + "\n")
    run, res = impl_phase(ctx, tag, exe, ["replay", script], scope_args, trace_module, tdefs if tdefs is not None else defs, tconsts, props)
    run["tlc_generated_behaviours"] = len(behaviours)
    ctx.log(f"{tag}: {len(behaviours)} behaviours generated by TLC (depth {depth}) replayed into the real code")
    return run


def replay_violation(info):
    """bin/check <id> --replay file: rebuild the driver from /repo's working tree, re-execute the recorded path and
    the failing operation (engine replay mode fed with the path + the driver's own enumeration is not needed: the
    failing operation is found again by exploring from the replayed pre-state), and judge the transition again."""
    rp = info.get("replay") or {}
    b = rp.get("build")
    if not b or not rp.get("path_ops"):
        return None
    ctx = Ctx(info["property"], "quick", int(info.get("seed", 1)))
    ctx.work = VERIF / ".work" / f"{info['property']}-replay"
    if ctx.work.exists():
        shutil.rmtree(ctx.work)
    ctx.work.mkdir(parents=True)
    exe = build(ctx, b["name"], b["driver"], b["libsrcs"], flags=b["flags"], wrap=b["wrap"], extra_srcs=b["extra_srcs"], cc=b["cc"], defs=b["defs"], libs=b["libs"])
    # the pre-state is reached by the path; the failing record is re-created by exploring only that state:
    # run `explore` and keep the records whose pre-state equals the recorded one and whose op matches
    rec = info["record"]
    trace = ctx.work / "replay-all.ndjson"
    run_driver(ctx, exe, ["explore", trace, str(int(rec["sid"]) + 1), "--"] + rp["scope"], timeout=600)
    keep = ctx.work / "replay.ndjson"
    want = {k: v for k, v in rec.items() if k not in ("id", "pre", "post", "ret", "ev", "out", "it", "tsp", "twp", "tt", "par", "min", "max", "size", "load6")}
    n = 0
    with open(trace) as f, open(keep, "w") as g:
        g.write(f.readline())
        for line in f:
            r = json.loads(line)
            if r.get("sid") == rec["sid"] and all(r.get(k) == v for k, v in want.items()):
                g.write(line); n += 1
    if n == 0:
        print("replay: the recorded operation is no longer offered in that state (the code changed?)")
        return 2
    res = validate(ctx, "replay", rp["trace_module"], rp["defs"], rp["consts"], keep, levels=(2,), shards=1)
    bad = [x for x in res["l2"] if x[0] == info.get("contract", info["property"])]
    print(f"replay: re-executed {len(rp['path_ops']) - 1} operations to reach the state, then {json.dumps(want)}")
    if bad:
        print(f"VIOLATION property={info['property']} replay={info.get('_path', '')}")
        print("  the contract still fails on this transition")
        return 1
    print("replay: the transition satisfies the contract now")
    return 0
