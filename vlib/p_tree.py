"""C01, C02 (and the tree part of C15): bintree.c / rbtree.c against TreeOps.tla."""
import random
from .core import *

LIB = ["bintree.c", "rbtree.c", "common.c"]


def consts(keys, rb):
    return f"  N = {len(keys)}\n  Key <- K\n  RB = {'TRUE' if rb else 'FALSE'}"


def kdef(keys):
    return "K == " + tla_seq(keys)


def l0_tree(ctx, tag, keys, rb, swap):
    cfg = ("CONSTANTS\n" + consts(keys, rb) + f"\n  WithSwap = {'TRUE' if swap else 'FALSE'}\n"
           "SPECIFICATION Spec\nINVARIANT InvStruct\nINVARIANT InvRb\nINVARIANT InvProbes\nINVARIANT InvRefines\n")
    return l0(ctx, tag, "Tree", kdef(keys), cfg, expect_actions=("Insert", "Erase", "Clear"))


def scope(keys, rb, swap, probes):
    return [int(rb), "".join(map(str, keys)), int(swap), probes]


def closure(ctx, exe, tag, keys, rb, swap, probes, props):
    r = l0_tree(ctx, tag, keys, rb, swap)
    impl_phase(ctx, "impl-" + tag, exe, ["explore"], scope(keys, rb, swap, probes), "TraceTree", kdef(keys),
               consts(keys, rb), props, expect_states=r.distinct)


def rand_keys(rng, n, nkeys):
    return [1 + rng.randrange(nkeys) for _ in range(n)]


def run(ctx):
    props = {ctx.pid}
    exe = build(ctx, "drv_tree", "drv_tree.c", LIB)
    rng = random.Random(ctx.seed)
    K6 = [1, 1, 2, 2, 3, 3]
    K7 = [1, 1, 2, 2, 3, 3, 2]
    K8 = [1, 1, 2, 2, 3, 3, 2, 4]
    K9 = [1, 1, 2, 2, 3, 3, 2, 4, 4]
    if ctx.pid == "C01":
        if ctx.quick:
            closure(ctx, exe, "bst6", K6, False, True, 2, props)
            closure(ctx, exe, "rb6", K6, True, True, 2, props)
            rk = rand_keys(rng, 40, 6)
            for rb in (False, True):
                impl_phase(ctx, f"rand-{'rb' if rb else 'bst'}", exe, ["random", ctx.seed, 1500, 2], scope(rk, rb, 1, 2),
                           "TraceTree", kdef(rk), consts(rk, rb), props)
        else:
            closure(ctx, exe, "bst6", K6, False, True, 2, props)
            closure(ctx, exe, "rb6", K6, True, True, 2, props)
            closure(ctx, exe, "bst8", K8, False, False, 1, props)
            closure(ctx, exe, "rb8", K8, True, False, 1, props)
            alt = sorted(rand_keys(rng, 8, 3))
            closure(ctx, exe, "rb8s", alt, True, False, 1, props)
            rk = rand_keys(rng, 200, 8)
            for rb in (False, True):
                impl_phase(ctx, f"rand-{'rb' if rb else 'bst'}", exe, ["random", ctx.seed, 10000, 2], scope(rk, rb, 1, 2),
                           "TraceTree", kdef(rk), consts(rk, rb), props)
    else:  # C02
        if ctx.quick:
            closure(ctx, exe, "rb7", K7, True, False, 1, props)
            rk = rand_keys(rng, 60, 5)
            impl_phase(ctx, "rand-rb", exe, ["random", ctx.seed, 3000, 1], scope(rk, True, 0, 1),
                       "TraceTree", kdef(rk), consts(rk, True), props)
        else:
            closure(ctx, exe, "rb7", K7, True, False, 1, props)
            closure(ctx, exe, "rb9", K9, True, False, 0, props)
            d8 = [1, 2, 3, 4, 5, 6, 7, 8]
            closure(ctx, exe, "rb8d", d8, True, False, 0, props)
            rk = rand_keys(rng, 400, 6)
            impl_phase(ctx, "rand-rb", exe, ["random", ctx.seed, 15000, 2], scope(rk, True, 0, 1),
                       "TraceTree", kdef(rk), consts(rk, True), props)
    ctx.assumptions += [
        "TLC and the TLA+ transcription of the contract (TreeOps.tla: StructOK, RbOK, *Contract) are trusted",
        "the driver's serialiser reads the real struct fields declared in the public headers",
        "closure is in a small scope (pool sizes above); beyond it only seeded random histories",
    ]
    return finish(ctx)
