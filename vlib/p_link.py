"""C18: public headers usable by client programs - Link.tla over facts extracted from the real tree,
bound to the real compiler/linker on the same configurations."""
import itertools, random
from .core import *

CFLAGS = ["-Wall", "-Wextra", "-Werror", "-Werror=vla", "-Werror=declaration-after-statement", "-std=c99", "-pedantic",
          "-D_POSIX_C_SOURCE=199309L", "-Wno-unused-function", "-Wno-unused-variable"]


def tla_set(xs):
    return "{" + ", ".join('"%s"' % x for x in sorted(xs)) + "}"


def is_ours(sym):
    return sym.startswith("cstl_") or sym.startswith("__cstl_")


def nm_syms(path, dynamic=False):
    rc, out = sh(["nm"] + (["-D"] if dynamic else []) + ["--defined-only", str(path)])
    d = set()
    for l in out.splitlines():
        f = l.split()
        if len(f) >= 3 and f[-2] in "TDBRCGSV" and is_ours(f[-1]):
            d.add(f[-1])
    rc, out = sh(["nm"] + (["-D"] if dynamic else []) + ["--undefined-only", str(path)])
    u = {l.split()[-1] for l in out.splitlines() if l.split() and is_ours(l.split()[-1])}
    return d, u


def run(ctx):
    W = ctx.work
    rng = random.Random(ctx.seed)
    # ---- build the library exactly as the project does, from a scratch copy of the working tree
    lib = W / "lib"
    shutil.copytree(REPO, lib, ignore=shutil.ignore_patterns(".git", "build", "_build"))
    (lib / "build").mkdir(exist_ok=True)
    for d in ("test", "benches"):
        (lib / "build" / d).mkdir(exist_ok=True)
    rc, out = sh(["make", "-C", str(lib), "build"], timeout=300)
    if rc != 0:
        raise HarnessError("library build failed:\n" + out[-3000:])
    inc = lib / "include"
    headers = sorted(p.stem for p in (inc / "cstl").glob("*.h") if not p.name.startswith("_"))
    viol = 0

    def compile_tu(name, hs, addr_syms=None):
        src = W / f"{name}.c"
        body = "".join(f'#include "cstl/{h}.h"\n' for h in hs)
        if addr_syms is not None:
            body += "typedef void (*fp_t)(void);\nconst fp_t %s_tab[] = { %s (fp_t)0 };\n" % (name, "".join(f"(fp_t){s}, " for s in sorted(addr_syms)))
        src.write_text(body)
        rc, out = sh(["gcc"] + CFLAGS + ["-O0", "-I", str(inc), "-c", str(src), "-o", str(W / f"{name}.o")])
        return rc, out

    # ---- facts per header: compile alone (project's warning flags); a compile error is a violation by itself
    hdr_defs, hdr_decls = {}, {}
    for h in headers:
        rc, out = compile_tu(f"one_{h}", [h])
        if rc != 0:
            violation(ctx, f"header {h}.h does not compile on its own: {out.strip().splitlines()[-1] if out.strip() else ''}",
                      {"signature": f"compile:{h}", "output": out[-2000:]})
            viol += 1
            hdr_defs[h], hdr_decls[h] = set(), set()
            continue
        # "a C99 program": no feature-test macros, no GNU extensions - what the header needs it has to get for itself
        rc2, out2 = sh(["gcc", "-std=c99", "-pedantic-errors", "-I", str(inc), "-fsyntax-only", str(W / f"one_{h}.c")])
        if rc2 != 0:
            err = [l for l in out2.splitlines() if "error" in l]
            violation(ctx, f"header {h}.h does not compile in a plain C99 translation unit (-std=c99, no feature-test macros): {(err or [''])[0].strip()}",
                      {"signature": f"compile-plain:{h}", "output": out2[-2000:]})
            viol += 1
        hdr_defs[h], _ = nm_syms(W / f"one_{h}.o")
        aux = W / f"one_{h}.aux"
        sh(["gcc", "-std=c99", "-D_POSIX_C_SOURCE=199309L", "-I", str(inc), "-aux-info", str(aux), "-fsyntax-only", str(W / f"one_{h}.c")])
        decl, defd = set(), set()
        for l in open(aux, errors="replace"):
            m = re.match(r"/\* (\S+):\d+:(\w)(\w) \*/ (extern|static) .*?\b(\w+) \(", l)
            if not m or "/include/cstl/" not in m.group(1) or not is_ours(m.group(5)):
                continue
            if m.group(4) == "extern":
                (defd if m.group(3) == "F" else decl).add(m.group(5))
        # every function with external linkage the header mentions must come from somewhere: those the TU
        # itself defines strongly are in hdr_defs (nm); the rest - plain declarations, and C99 `inline`
        # definitions without `static`, which provide no external definition - must come from the library
        hdr_decls[h] = (decl | defd) - hdr_defs[h]
    # ---- every ordered pair and all together must compile too
    pairs = list(itertools.permutations(headers, 2))
    todo = pairs if not ctx.quick else rng.sample(pairs, 40)
    ncomp = len(headers)
    def cp(i_p):
        i, (a, b) = i_p
        return (a, b) + compile_tu(f"pair_{i}", [a, b])
    with ThreadPoolExecutor(max_workers=NCPU) as ex:
        for a, b, rc, out in ex.map(cp, list(enumerate(todo))):
            ncomp += 1
            if rc != 0:
                violation(ctx, f"headers {a}.h then {b}.h do not compile together", {"signature": f"compile:{a}+{b}", "output": out[-2000:]})
                viol += 1
    # ---- library facts
    members = {}
    mdir = W / "members"; mdir.mkdir()
    sh(["ar", "x", str(lib / "build" / "libcstl.a")], cwd=mdir)
    for o in sorted(mdir.glob("*.o")):
        members[o.stem] = nm_syms(o)
    so_defs, _ = nm_syms(lib / "build" / "libcstl.so", dynamic=True)

    # ---- clients are not all compiled like the library: what a header declares may depend on the client's own settings
    # (NDEBUG, optimisation, target features, language dialect).  For each variant, everything a header declares with
    # external linkage and the including TU does not define must still be provided by both libcstl.a and libcstl.so.
    lib_defs = set().union(*[d for d, _ in members.values()]) if members else set()
    variants = [("-O2 -DNDEBUG", ["-O2", "-DNDEBUG"]), ("-march=native", ["-march=native"]),
                ("-std=gnu99 -D_GNU_SOURCE", ["-std=gnu99", "-D_GNU_SOURCE"]), ("-O3 -msse4.2 -mavx2", ["-O3", "-msse4.2", "-mavx2"])]
    (W / "empty_tu.c").write_text("int verif_empty_tu;\n")
    variants = [v for v in variants      # a flag this compiler / machine does not take says nothing about the headers
                if sh(["gcc", "-std=c99"] + v[1] + ["-c", str(W / "empty_tu.c"), "-o", str(W / "empty_tu.o")])[0] == 0]
    def variant_job(job):
        (label, vf), h = job
        src = W / f"one_{h}.c"
        o = W / f"var_{abs(hash(label)) % 100000}_{h}.o"
        base = ["gcc", "-std=c99", "-D_POSIX_C_SOURCE=199309L", "-I", str(inc)] + vf
        rc, out = sh(base + ["-c", str(src), "-o", str(o)])
        if rc != 0:
            return label, h, "compile", out
        defs_here, _ = nm_syms(o)
        aux = Path(str(o) + ".aux")
        sh(base + ["-aux-info", str(aux), "-fsyntax-only", str(src)])
        need = set()
        for l in open(aux, errors="replace"):
            m = re.match(r"/\* (\S+):\d+:(\w)(\w) \*/ (extern|static) .*?\b(\w+) \(", l)
            if m and "/include/cstl/" in m.group(1) and is_ours(m.group(5)) and m.group(4) == "extern":
                need.add(m.group(5))
        return label, h, "ok", sorted(need - defs_here - (lib_defs & so_defs))
    nvar = 0
    with ThreadPoolExecutor(max_workers=NCPU) as ex:
        for label, h, st, res in ex.map(variant_job, [(v, h) for v in variants for h in headers]):
            nvar += 1
            if st == "compile":
                violation(ctx, f"header {h}.h does not compile in a client built with {label}: {(res.strip().splitlines() or [''])[-1]}",
                          {"signature": f"compile-variant:{h}", "output": res[-2000:]})
                viol += 1
            elif res:
                violation(ctx, f"a client built with {label} sees {h}.h declare {', '.join(res[:4])}, which neither the header nor libcstl.a / libcstl.so provides",
                          {"signature": f"variant-undefined:{h}", "symbols": res})
                viol += 1
    ctx.cov["client_variants_checked"] = {"variants": [v[0] for v in variants], "header_compiles": nvar}
    # ---- the model over every configuration
    def fn(d):
        return "[h \\in Headers |-> CASE " + " [] ".join(f'h = "{h}" -> {tla_set(d[h])}' for h in headers) + "]"
    def fm(idx):
        return "[m \\in Members |-> CASE " + " [] ".join(f'm = "{m}" -> {tla_set(members[m][idx])}' for m in sorted(members)) + "]"
    singles = [[h] for h in headers]
    two = [list(p) for p in itertools.combinations(headers, 2)]
    if ctx.quick:
        hsets = singles + two + [headers]
    else:
        hsets = [list(c) for n in range(1, len(headers) + 1) for c in itertools.combinations(headers, n)]
    defs = ("HS == " + tla_set(headers) + "\nHD == " + fn(hdr_defs) + "\nHC == " + fn(hdr_decls) +
            "\nMS == " + tla_set(members) + "\nMD == " + fm(0) + "\nMU == " + fm(1) + "\nSD == " + tla_set(so_defs) +
            "\nHSETS == {" + ", ".join(tla_set(s) for s in hsets) + "}\n")
    cfg = ("CONSTANTS\n  Headers <- HS\n  HdrDefs <- HD\n  HdrDecls <- HC\n  Members <- MS\n  MemDefs <- MD\n  MemUndefs <- MU\n"
           "  SoDefs <- SD\n  HeaderSets <- HSETS\nSPECIFICATION Spec\nINVARIANT NoDuplicateStrongDef\nINVARIANT NoUndefined\nINVARIANT AllProvided\nCHECK_DEADLOCK FALSE\n")
    t0 = time.time()
    r = tlc(ctx, "l0-link", "MC_link", mc_module("MC_link", "Link", defs), cfg, heap="6g", timeout=1500)
    ctx.cov["states"] += r.distinct; ctx.cov["transitions"] += r.generated
    ctx.cov["l0_runs"].append({"model": "link", "configurations": len(hsets) * 8, "distinct_states": r.distinct, "states_generated": r.generated,
                               "violated": r.violated, "wall_s": round(time.time() - t0, 1)})
    ctx.log(f"L0 link: {len(hsets) * 8} configurations, {r.distinct} distinct states, violated={r.violated}")
    model_bad = bool(r.violated)
    if not r.ok and not r.violated:
        raise HarnessError("TLC failed on the link model:\n" + r.out[-3000:])
    if model_bad:
        # the model works on facts extracted from the real tree: a violated invariant is a property of the code
        m = re.search(r"cfg = (\[[^\]]*\])", r.out.replace("\n", " "))
        violation(ctx, f"link model: {', '.join(r.violated)} for configuration {m.group(1) if m else '?'}",
                  {"signature": "link:" + ",".join(r.violated), "tlc": r.out[-3000:]})
        viol += 1

    # ---- binding: really compile and link configurations; the toolchain must agree with the model (and succeed)
    real = singles + [headers] + (rng.sample(two, 10) if ctx.quick else two)
    jobs = []
    for i, hs in enumerate(real):
        for addr in (False, True):
            syms = set().union(*[hdr_decls[h] | hdr_defs[h] for h in hs]) if addr else None
            for k in (1, 2):
                rc, out = compile_tu(f"cli_{i}_{int(addr)}_{k}", hs, syms)
                ncomp += 1
                if rc != 0:
                    violation(ctx, f"client including {hs} (addresses taken: {addr}) does not compile", {"signature": "compile:client", "output": out[-2000:]})
                    viol += 1
            for ntu in (1, 2):
                for libk in ("a", "so"):
                    jobs.append((i, hs, addr, ntu, libk))
    (W / "main.c").write_text("int main(void) { return 0; }\n")
    sh(["gcc", "-c", str(W / "main.c"), "-o", str(W / "main.o")], check=True)

    def link(job):
        i, hs, addr, ntu, libk = job
        objs = [str(W / "main.o")] + [str(W / f"cli_{i}_{int(addr)}_{k}.o") for k in range(1, ntu + 1)]
        libargs = [str(lib / "build" / "libcstl.a")] if libk == "a" else ["-L", str(lib / "build"), "-lcstl"]
        rc, out = sh(["gcc", "-o", str(W / f"prog_{i}_{int(addr)}_{ntu}_{libk}")] + objs + libargs + ["-lm"])
        try:
            os.unlink(W / f"prog_{i}_{int(addr)}_{ntu}_{libk}")
        except OSError:
            pass
        return job, rc, out
    nlink = 0
    with ThreadPoolExecutor(max_workers=NCPU) as ex:
        for job, rc, out in ex.map(link, jobs):
            nlink += 1
            if rc != 0 and viol < 6:
                i, hs, addr, ntu, libk = job
                first = [l for l in out.splitlines() if "multiple definition" in l or "undefined reference" in l][:1]
                violation(ctx, f"client including {hs} in {ntu} TU(s), addresses taken: {addr}, against libcstl.{libk} does not link: {first[0] if first else out[-200:]}",
                          {"signature": f"link:{libk}:{ntu}", "headers": hs, "output": out[-2000:]})
                viol += 1
            if rc != 0 and not model_bad:
                ctx.cov["spec_drift"].append(f"toolchain rejects a configuration the link model accepts: {job[1:]}")
    ctx.cov["traces_validated_against_impl"] += nlink
    ctx.cov["impl_runs"].append({"phase": "toolchain", "compiles": ncomp, "real_links": nlink, "headers": headers,
                                 "declared_functions": sum(len(v) for v in hdr_decls.values()), "archive_members": len(members), "so_symbols": len(so_defs)})
    ctx.cov["samples"] = [{"configuration": {"headers": real[0], "ntu": 2, "addr": True, "lib": "a"}, "verdict": "links"},
                          {"header_facts": {h: {"defines": sorted(hdr_defs[h]), "declares": sorted(hdr_decls[h])[:4]} for h in headers[:3]}}]
    ctx.cov["exhaustive"] = not ctx.quick and not ctx.violations
    ctx.log(f"toolchain: {ncomp} compiles, {nlink} real links, all as the model predicts" if not viol else f"toolchain: {viol} violations")
    ctx.assumptions += [
        "gcc / ld / nm / ar behave as a linker does in the model: strong duplicate = error, archive members pulled on demand, shared-object symbols resolve undefined references",
        "fact extraction: nm on a TU including one header (definitions), gcc -aux-info (external declarations without body); symbols outside cstl_/__cstl_ belong to the C library",
        "_string.h is the guard-less template and is excluded, as the property says",
    ]
    write_evidence(ctx)
    if not ctx.violations:
        shutil.rmtree(ctx.work, ignore_errors=True)
    return 1 if ctx.violations else 0
