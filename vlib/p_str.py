"""C10: src/_string.c + src/string.c over src/vector.c against StrOps.tla, both character widths."""
import random
from .core import *

LIB = ["string.c", "vector.c", "array.c", "memory.c", "common.c"]
WRAP = ("malloc", "realloc", "calloc", "free")
LT = "LT == << <<0>>, <<1,0>>, <<2,0>>, <<1,2,0>>, <<2,1,0>>, <<1,1,2,0>>, <<1,0,2,0>> >>"


def consts(w):
    return f"  W = {w}\n  Lits <- LT"


def closure(ctx, exe, tag, w, maxlen, props):
    cfg = "CONSTANTS\n" + consts(w) + f"\n  MaxLen = {maxlen}\nSPECIFICATION Spec\nINVARIANT InvOK\nINVARIANT InvStorage\n"
    r = l0(ctx, tag, "Str", LT, cfg)
    impl_phase(ctx, "impl-" + tag, exe, ["explore"], [maxlen, 1], "TraceStr", LT, consts(w), props, expect_states=r.distinct)


NAMES = ["setstr", "insch", "appch", "insstrn", "insstr", "appstr", "appstrn", "ins", "app", "erase", "resize", "reserve",
         "clear", "swap", "substr", "at", "findch", "findstr", "find", "cmpstr", "cmp", "stat"]
ARGS = {0: ["lit"], 5: ["lit"], 8: ["lit"], 13: ["lit"], 19: ["lit"], 20: ["lit"], 1: ["pos", "cnt", "c"], 2: ["cnt", "c"],
        3: ["pos", "lit", "cnt"], 4: ["pos", "lit"], 7: ["pos", "lit"], 6: ["lit", "cnt"], 9: ["pos", "cnt"], 10: ["t"], 11: ["t"],
        15: ["t"], 14: ["pos", "cnt", "lit"], 16: ["c", "pos"], 17: ["lit", "pos"], 18: ["lit", "pos"], 12: [], 21: []}


def str_line(o):
    k = NAMES.index(o["op"])
    a = [0] * 6
    for i, f in enumerate(ARGS[k]):
        v = o[f]
        a[i] = ((1000 if v["k"] == "max" else 0) + v["n"]) if isinstance(v, dict) else int(v)
    a[5] = 1 if o.get("fail") else 0
    return f"{k} " + " ".join(map(str, a))


def generated(ctx, exe, tag, w, maxlen, depth, num, props):
    """spec -> code: walks of the Str machine (its own OpSet: positions to size+1, huge counts, failing allocations;
    aborting calls are left to the closure) chosen by TLC's simulator, replayed into the real string code"""
    gen_replay(ctx, tag, "GenStr", LT, consts(w) + f"\n  MaxLen = {maxlen}", depth, num, str_line, exe, [maxlen, 1],
               "TraceStr", consts(w), props)


def run(ctx):
    props = {ctx.pid}
    narrow = build(ctx, "drv_str", "drv_str.c", LIB, wrap=WRAP)
    wide = build(ctx, "drv_wstr", "drv_str.c", LIB, wrap=WRAP, defs=["WIDE"])
    if ctx.quick:
        closure(ctx, narrow, "n3", 1, 3, props)
        closure(ctx, wide, "w2", 4, 2, props)
        generated(ctx, narrow, "gen-n8", 1, 8, 24, 3, props)
        generated(ctx, wide, "gen-w6", 4, 6, 24, 2, props)
        steps, ml = 2500, 120
    else:
        closure(ctx, narrow, "n4", 1, 4, props)
        closure(ctx, wide, "w3", 4, 3, props)
        # objects set up with the CSTL_*_INITIALIZER macros instead of the init functions: same closure, same model
        closure(ctx, build(ctx, "drv_str_macro", "drv_str.c", LIB, wrap=WRAP, defs=["USE_INITIALIZER"]), "n3-macro", 1, 3, props)
        generated(ctx, narrow, "gen-n12", 1, 12, 40, 25, props)
        generated(ctx, wide, "gen-w10", 4, 10, 40, 15, props)
        steps, ml = 15000, 400
    impl_phase(ctx, "rand-n", narrow, ["random", ctx.seed, steps, 2], [ml, 1], "TraceStr", LT, consts(1), props)
    impl_phase(ctx, "rand-w", wide, ["random", ctx.seed + 1, steps, 2], [ml, 1], "TraceStr", LT, consts(4), props)
    # strings of 3*10^5 characters built in pieces, edited in the middle, halved, searched
    from . import p_big
    p_big.big_phase(ctx, ["str:300000"] if ctx.quick else ["str:300000", "str:3000000"])
    ctx.assumptions += [
        "TLC and the TLA+ text of Want / RetOK / ContractOK / StorageOK in StrOps.tla are trusted (reference-string semantics written independently of the concrete operators)",
        "alphabet {a, b, NUL}; partner strings are temporaries built from 7 literals; source and destination are distinct objects",
        "at position = size erase/substr may abort or yield the empty result (the property is silent); L1 pins the code's choice (abort)",
    ]
    return finish(ctx)
