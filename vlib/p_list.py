"""C12 (dlist), C13 (slist): src/dlist.c, src/slist.c against DListOps.tla / SListOps.tla."""
import random
from .core import *

KIND = {"C12": ("dlist", "DList", "TraceDList", "drv_dlist.c", ["dlist.c", "common.c"]),
        "C13": ("slist", "SList", "TraceSList", "drv_slist.c", ["slist.c", "common.c"])}


def consts(vals, nl):
    return f"  N = {len(vals)}\n  NL = {nl}\n  Val <- V"


def vdef(vals):
    return "V == " + tla_seq(vals)


def closure(ctx, kind, exe, tag, vals, nl, props):
    name, l0mod, tmod = kind[0], kind[1], kind[2]
    cfg = "CONSTANTS\n" + consts(vals, nl) + "\nSPECIFICATION Spec\nINVARIANT InvOK\nINVARIANT InvWF\n"
    r = l0(ctx, tag, l0mod, vdef(vals), cfg)
    impl_phase(ctx, "impl-" + tag, exe, ["explore"], ["".join(map(str, vals)), nl, 1], tmod, vdef(vals),
               consts(vals, nl), props, expect_states=r.distinct)


def run(ctx):
    kind = KIND[ctx.pid]
    props = {ctx.pid}
    exe = build(ctx, "drv_" + kind[0], kind[3], kind[4])
    rng = random.Random(ctx.seed)
    if ctx.quick:
        closure(ctx, kind, exe, "n4l3", [1, 2, 1, 2], 3, props)
        closure(ctx, kind, exe, "n5l1", [2, 1, 2, 1, 3], 1, props)
        steps, n = 2500, 40
    else:
        closure(ctx, kind, exe, "n4l3", [1, 2, 1, 2], 3, props)
        closure(ctx, kind, exe, "n5l2", [2, 1, 2, 1, 3], 2, props)
        closure(ctx, kind, exe, "n6l1", [2, 1, 2, 1, 3, 1], 1, props)
        steps, n = 20000, 100
    vals = [1 + rng.randrange(5) for _ in range(n)]
    impl_phase(ctx, "rand", exe, ["random", ctx.seed, steps, 2], ["".join(map(str, vals)), 3, 1], kind[2], vdef(vals),
               consts(vals, 3), props)
    ctx.assumptions += [
        f"TLC and the TLA+ text of the sequence contract in {kind[1]}Ops.tla are trusted",
        "the driver reads head/tail/next/prev links and sizes from the real structs (public headers)",
        "concat is only called with two distinct lists, insert/erase positions are members of the list (the property's domain)",
    ]
    return finish(ctx)
