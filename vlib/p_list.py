"""C12 (dlist), C13 (slist): src/dlist.c, src/slist.c against DListOps.tla / SListOps.tla."""
import random
from .core import *

KIND = {"C12": ("dlist", "DList", "TraceDList", "drv_dlist.c", ["dlist.c", "common.c"]),
        "C13": ("slist", "SList", "TraceSList", "drv_slist.c", ["slist.c", "common.c"])}


def consts(vals, nl):
    return f"  N = {len(vals)}\n  NL = {nl}\n  Val <- V"


def vdef(vals):
    return "V == " + tla_seq(vals)


def closure(ctx, kind, exe, tag, vals, nl, props):
    name, l0mod, tmod = kind[0], kind[1], kind[2]
    cfg = "CONSTANTS\n" + consts(vals, nl) + "\nSPECIFICATION Spec\nINVARIANT InvOK\nINVARIANT InvWF\n"
    r = l0(ctx, tag, l0mod, vdef(vals), cfg)
    impl_phase(ctx, "impl-" + tag, exe, ["explore"], ["".join(map(str, vals)), nl, 1], tmod, vdef(vals),
               consts(vals, nl), props, expect_states=r.distinct)


def b01(x):
    return 1 if x else 0


def list_line(kind):
    d = kind == "dlist"
    def line(o):
        op = o["op"]
        if op == "pushf": return f"0 {o['l']} {o['e']}"
        if op == "pushb": return f"1 {o['l']} {o['e']}"
        if op == "popf": return f"2 {o['l']}"
        if op == "popb": return f"3 {o['l']}"
        if op == "insert": return f"4 {o['l']} {o['pe']} {o['e']}"
        if op == "erase": return f"5 {o['l']} {o['e']}"
        if op == "erasea": return f"5 {o['l']} {o['pe']}"
        if op == "reverse": return f"6 {o['l']}"
        if op == "sort": return f"7 {o['l']}"
        if op == "concat": return f"8 {o['d']} {o['src']}"
        if op == "swap": return f"9 {o['a']} {o['b']}"
        if op == "find": return f"10 {o['l']} {o['v']} {b01(o['rev'])} {o.get('key', 0)}"
        if op == "foreach":
            return f"11 {o['l']} {b01(o['rev'])} {o['stop']} {b01(o['er'])} {b01(o.get('nest', False))}" if d else f"11 {o['l']} {o['stop']} {b01(o['er'])}"
        if op == "clear": return f"12 {o['l']}"
        if op == "peek": return f"13 {o['l']}"
        raise HarnessError(f"no driver line for generated operation {o}")
    return line


def generated(ctx, kind, exe, tag, vals, nl, depth, num, props):
    """spec -> code: the simulator walks the model (operations from its own OpSet); the walks are replayed into the code"""
    gen_replay(ctx, tag, "Gen" + kind[1], vdef(vals), consts(vals, nl), depth, num, list_line(kind[0]), exe,
               ["".join(map(str, vals)), nl, 1], kind[2], consts(vals, nl), props)


def run(ctx):
    kind = KIND[ctx.pid]
    props = {ctx.pid}
    exe = build(ctx, "drv_" + kind[0], kind[3], kind[4])
    rng = random.Random(ctx.seed)
    if ctx.quick:
        closure(ctx, kind, exe, "n4l3", [1, 2, 1, 2], 3, props)
        closure(ctx, kind, exe, "n5l1", [2, 1, 2, 1, 3], 1, props)
        generated(ctx, kind, exe, "gen-n9l3", [1 + rng.randrange(4) for _ in range(9)], 3, 30, 30, props)
        steps, n = 2500, 40
    else:
        closure(ctx, kind, exe, "n4l3", [1, 2, 1, 2], 3, props)
        closure(ctx, kind, exe, "n5l2", [2, 1, 2, 1, 3], 2, props)
        closure(ctx, kind, exe, "n6l1", [2, 1, 2, 1, 3, 1], 1, props)
        # objects set up with the CSTL_*_INITIALIZER macros instead of the init functions: same closure, same model
        closure(ctx, kind, build(ctx, "drv_" + kind[0] + "_macro", kind[3], kind[4], defs=["USE_INITIALIZER"]), "n4l3-macro", [1, 2, 1, 2], 3, props)
        generated(ctx, kind, exe, "gen-n12l3", [1 + rng.randrange(5) for _ in range(12)], 3, 50, 60, props)
        steps, n = 20000, 100
    # directed histories beyond the closure: long lists (17..64 nodes) in the orders where merge sort's halves do
    # not interleave (descending, rotated at the middle), ascending, organ pipe, random; after the sort the tail
    # must still be the true last element: push_back, walk, reverse, sort again, push_front, walk.
    # One pool: node i has value i (two spare nodes with the largest and the smallest value).
    PN = 34 if ctx.quick else 66
    pvals = list(range(1, PN - 1)) + [PN, 0]
    lines = []
    for L in ((17, 20, 32) if ctx.quick else (17, 18, 20, 24, 33, 40, 64)):
        asc = list(range(1, L + 1))
        for order in (asc[::-1], asc[L // 2:] + asc[:L // 2], asc, asc[:L // 2] + asc[L // 2:][::-1],
                      rng.sample(asc, L), asc[L // 2 + 1:] + asc[:L // 2 + 1]):
            lines.append("reset")
            lines += [f"1 1 {n}" for n in order]                  # push_back(list 1, node n)
            lines += ["7 1", "13 1", f"1 1 {PN - 1}", "13 1", "6 1", "7 1", f"0 1 {PN}", "13 1"]
            lines += (["11 1 0 0 0", "11 1 1 0 0"] if kind[0] == "dlist" else ["11 1 0"])
    script = ctx.work / "patterns.ops"
    script.write_text("\n".join(lines) + "\n")
    impl_phase(ctx, "patterns", exe, ["replay", script], ["".join(chr(48 + v) for v in pvals), 1, 1], kind[2], vdef(pvals),
               consts(pvals, 1), props)
    vals = [1 + rng.randrange(5) for _ in range(n)]
    impl_phase(ctx, "rand", exe, ["random", ctx.seed, steps, 2], ["".join(map(str, vals)), 3, 1], kind[2], vdef(vals),
               consts(vals, 3), props)
    # comparison functions that sort a list of their own on every call (elements that own lists, sorted lazily)
    impl_phase(ctx, "rand-nestcmp", exe, ["random", ctx.seed + 7, 1500 if ctx.quick else 10000, 2], ["".join(map(str, vals)), 3, 1], kind[2], vdef(vals),
               consts(vals, 3), props, env={"VERIF_NESTCMP": "1"})
    # lists of 2^16 and more elements (sort, push_back after it, reverse)
    from . import p_big
    p_big.big_phase(ctx, [f"{kind[0]}:70000", f"{kind[0]}:400000"] if ctx.quick else [f"{kind[0]}:70000", f"{kind[0]}:400000", f"{kind[0]}:1100000"])
    ctx.assumptions += [
        f"TLC and the TLA+ text of the sequence contract in {kind[1]}Ops.tla are trusted",
        "the driver reads head/tail/next/prev links and sizes from the real structs (public headers)",
        "concat is only called with two distinct lists, insert/erase positions are members of the list (the property's domain)",
    ]
    return finish(ctx)
