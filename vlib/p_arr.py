"""C14 (array views), array part of C20: array objects of src/array.c against ArrOps.tla."""
from .core import *

LIB = ["array.c", "memory.c", "common.c"]
WRAP = ("malloc", "realloc", "calloc", "free")


def consts(na):
    return f"  NA = {na}"


def closure(ctx, exe, tag, na, maxn, faults, stray, props):
    cfg = ("CONSTANTS\n" + consts(na) + f"\n  MaxN = {maxn}\n  WithFaults = {'TRUE' if faults else 'FALSE'}\n"
           "SPECIFICATION Spec\nINVARIANT InvOK\nINVARIANT InvView\n")
    r = l0(ctx, tag, "Arr", "", cfg)
    impl_phase(ctx, "impl-" + tag, exe, ["explore"], [na, maxn, int(faults), int(stray)], "TraceArr", "", consts(na), props,
               expect_states=r.distinct)


def term(t):
    return (1000 if t["k"] == "max" else 0) + t["n"]


def arr_line(o):
    op = o["op"]
    mask = lambda ok: (0 if ok[0] else 1) | (0 if ok[1] else 2)
    if op == "alloc": return f"0 {o['a']} {term(o['nm'])} {o['sz']} {mask(o['ok'])}"
    if op == "set": return f"1 {o['a']} {o['e']} {o['sz']} {mask(o['ok'])}"
    if op == "slice": return f"2 {o['a']} {term(o['beg'])} {term(o['end'])} {o['s']}"
    if op == "unslice": return f"3 {o['s']} {o['a']}"
    if op == "at": return f"6 {o['a']} {term(o['i'])}"
    if op == "release": return f"5 {o['a']} {1 if o['nob'] else 0}"
    one = {"reset": 4, "data": 7, "size": 8}
    if op in one: return f"{one[op]} {o['a']}"
    raise HarnessError(f"no driver line for generated operation {o}")


def generated(ctx, exe, tag, na, maxn, depth, num, props):
    """spec -> code: walks of the Arr machine (its own OpSet, failing allocations included, aborting calls left to
    the closure) chosen by TLC's simulator, replayed into src/array.c"""
    gen_replay(ctx, tag, "GenArr", "", consts(na) + f"\n  MaxN = {maxn}\n  WithFaults = TRUE", depth, num, arr_line, exe,
               [na, maxn, 1, 0], "TraceArr", consts(na), props)


def run_c14(ctx, props, stray=False):
    exe = build(ctx, "drv_arr", "drv_arr.c", LIB, wrap=WRAP)
    if ctx.quick:
        closure(ctx, exe, "a2n2", 2, 2, True, stray, props)
        if not stray:
            generated(ctx, exe, "gen-a3n4", 3, 4, 40, 20, props)
            impl_phase(ctx, "rand", exe, ["random", ctx.seed, 2500, 2], [3, 5, 1, 0], "TraceArr", "", consts(3), props)
    else:
        closure(ctx, exe, "a2n3", 2, 3, True, stray, props)
        # objects set up with the CSTL_*_INITIALIZER macros instead of the init functions: same closure, same model
        closure(ctx, build(ctx, "drv_arr_macro", "drv_arr.c", LIB, wrap=WRAP, defs=["USE_INITIALIZER"]), "a2n2-macro", 2, 2, False, stray, props)
        if not stray:
            # (three objects: the closure has 8-12 million transitions with the present operation set; the generated
            # and random histories below use three and four objects instead)
            generated(ctx, exe, "gen-a4n6", 4, 6, 80, 150, props)
            impl_phase(ctx, "rand", exe, ["random", ctx.seed, 20000, 3], [4, 12, 1, 0], "TraceArr", "", consts(4), props)


def big_probe(ctx):
    """indexes at and beyond 2^31 (where an `int` index would wrap): limb arithmetic in TraceArrBig.tla"""
    exe = build(ctx, "drv_arr_big", "drv_arr.c", LIB, wrap=WRAP)
    trace = ctx.work / "big.ndjson"
    rc, out = sh([str(exe), "bigprobe", str(trace)], timeout=120)
    if rc != 0:
        raise HarnessError("bigprobe failed: " + out[-1000:])
    r = tlc(ctx, "tv-big", "TV_big", mc_module("TV_big", "TraceArrBig"), "SPECIFICATION TSpec\nINVARIANT Done\nCHECK_DEADLOCK FALSE\n",
            env={"TRACE": str(trace)}, workers=1, heap="2g")
    if not (r.rc == 0 and any(x.startswith('"TRACE-END"') for x in r.prints)):
        raise HarnessError("TLC failed on bigprobe: " + r.out[-1500:])
    bad = [int(x.split(",")[2]) for x in r.prints if x.startswith('"L2FAIL"')]
    n = sum(1 for _ in open(trace)) - 1
    for rid in sorted(bad)[:3]:
        hdr, rec = find_record(trace, rid)
        violation(ctx, f"cstl_array_at beyond 2^31 elements: {json.dumps(rec)}", {"signature": "arr:atbig", "record": rec})
    ctx.cov["traces_validated_against_impl"] += n
    ctx.cov["impl_runs"].append({"phase": "bigprobe", "mode": "probe", "calls_validated": n, "l2_failures": len(bad)})
    ctx.log(f"bigprobe: {n} cstl_array_at calls on a 2^31+4096 element buffer validated, {len(bad)} wrong")


def run(ctx):
    props = {ctx.pid}
    run_c14(ctx, props)
    big_probe(ctx)
    # 70 000 views of one external buffer
    from . import p_big
    p_big.big_phase(ctx, ["views:70000"] if ctx.quick else ["views:70000", "views:300000"])
    ctx.assumptions += [
        "TLC and the TLA+ text of Contract / ViewOK / LifeOK in ArrOps.tla are trusted",
        "the private descriptor {sz, nm, buf} is read through a mirror of its layout; containment of every index below size is "
        "additionally probed with the address arithmetic of cstl_array_at against the allocator's block bounds",
        "external buffers are two static driver buffers; element size 4 (1 and 4 for unrepresentable products)",
    ]
    return finish(ctx)
