"""C06: the reference-count protocol of src/memory.c under every thread interleaving.
PtrConc.tla (atomic-step model, TLC exhaustive incl. liveness) bound to the real code by a
deterministic scheduler over TSan-instrumented memory.c; every explored run is validated by TLC."""
import itertools
from .core import *

ROLES = ["owner", "weak", "both", "none"]
OPS = ["reset1", "share", "wfrom", "lock", "wreset", "get1", "uniq1"]


def build_conc(ctx):
    obj = ctx.work / "memory_tsan.o"
    # -fsanitize=thread turns every atomic / plain 8-byte access of memory.c into a __tsan_* call; the
    # TSan runtime is NOT linked: harness/drv_conc.c defines those entry points (no source hook needed)
    rc, out = sh(["gcc", "-std=gnu99", "-O1", "-DNDEBUG", "-D_POSIX_C_SOURCE=199309L", "-D" + GUARD, "-fsanitize=thread",
                  "-I", str(REPO / "include"), "-c", str(REPO / "src" / "memory.c"), "-o", str(obj)])
    if rc != 0:
        raise HarnessError("memory.c (tsan-instrumented) build failed:\n" + out[-3000:])
    exe = ctx.work / "drv_conc"
    rc, out = sh(["gcc", "-std=gnu99", "-O2", "-I", str(REPO / "include"), str(HARNESS / "drv_conc.c"), str(obj),
                  str(REPO / "src" / "common.c"), "-o", str(exe), "-Wl,--wrap=malloc,--wrap=free"])
    if rc != 0:
        raise HarnessError("drv_conc build failed:\n" + out[-3000:])
    return exe


def l0_conc(ctx, tag, nt, roles, ops, clr=True, live=True, timeout=3000, plen=1):
    cfg = (f"CONSTANTS\n  NT = {nt}\n  Roles = {{{', '.join(chr(34) + r + chr(34) for r in roles)}}}\n"
           f"  Ops = {{{', '.join(chr(34) + o + chr(34) for o in ops)}}}\n  HasClr = {'TRUE' if clr else 'FALSE'}\n  PLen = {plen}\n"
           f"SPECIFICATION {'FairSpec' if live else 'Spec'}\nINVARIANT Safe\nINVARIANT MemSafe\nINVARIANT HardOK\nINVARIANT Final\nINVARIANT NoRace\n"
           + ("PROPERTY Live\n" if live else "") + "CHECK_DEADLOCK FALSE\n")
    return l0(ctx, tag, "PtrConc", "", cfg, timeout=timeout, heap="24g")


def split_runs(trace, nshards):
    """shards of whole runs (a run starts at a reset line); every line gets an id"""
    shards, cur, n = [], [], 0
    with open(trace) as f:
        hdr = f.readline()
        runs = []
        for line in f:
            n += 1
            line = '{"id":%d,' % n + line[1:]
            if '"e":"reset"' in line and cur:
                runs.append(cur); cur = []
            cur.append(line)
        if cur:
            runs.append(cur)
    total = sum(len(r) for r in runs)
    per = max(1, (total + nshards - 1) // nshards)
    out, buf, cnt = [], [], 0
    for r in runs:
        buf.extend(r); cnt += len(r)
        if cnt >= per:
            out.append(buf); buf, cnt = [], 0
    if buf:
        out.append(buf)
    paths = []
    for k, b in enumerate(out):
        p = Path(str(trace) + f".s{k}")
        with open(p, "w") as f:
            f.write('{"id":0,"e":"hdr"}\n')
            f.writelines(b)
        paths.append(p)
    return paths, n, len(runs)


def conc_phase(ctx, tag, exe, scenarios, props, clr=True, maxruns=200000, nt=4, max_events=None):
    if ctx.violations:
        ctx.log(f"{tag}: skipped, an earlier phase already established a violation")
        return
    t = time.time()
    trace = ctx.work / f"{tag}.ndjson"
    rc, out = sh([str(exe), str(trace), "1" if clr else "0", str(maxruns)] + scenarios, timeout=3000,
                 env={"VERIF_SEED": str(ctx.seed), "VERIF_MAX_EVENTS": str(max_events or (3000000 if ctx.quick else 40000000))})
    if rc != 0:
        raise HarnessError(f"drv_conc failed rc={rc}: {out[-2000:]}")
    summ = json.loads(out.strip().splitlines()[-1])
    if summ.get("truncated"):
        # far more schedules than the unchanged tree has: what was explored is still judged, and the evidence says so
        ctx.notes.append(f"{tag}: schedule enumeration stopped at the event budget ({summ.get('events')} events)")
    parts, nlines, nruns = split_runs(trace, NCPU // 2)
    consts = f"  NT = {nt}\n  Roles = {{\"owner\"}}\n  Ops = {{\"none\"}}\n  HasClr = {'TRUE' if clr else 'FALSE'}\n  PLen = 1"
    jobs = [(lv, k, p) for lv in (1, 2) for k, p in enumerate(parts)]

    def one(job):
        lv, k, p = job
        name = f"TV_{re.sub(chr(92) + 'W', '_', tag)}_{lv}_{k}"
        cfg = "CONSTANTS\n" + consts + f"\n  Level = {lv}\nSPECIFICATION TSpec\nINVARIANT Done\nCHECK_DEADLOCK FALSE\n"
        return lv, k, tlc(ctx, f"tv-{tag}-{lv}-{k}", name, mc_module(name, "TraceConc"), cfg, env={"TRACE": str(p)}, workers=1, heap="4g", timeout=3000)
    with ThreadPoolExecutor(max_workers=NCPU) as ex:
        results = list(ex.map(one, jobs))
    l2, l1 = [], []
    for lv, k, r in results:
        ended = any(x.startswith('"TRACE-END"') for x in r.prints)
        for x in r.prints:
            f = [y.strip().strip('"') for y in x.split(",")]
            if f[0] == "L2FAIL":
                l2.append(int(f[2]))
            elif f[0] == "L1DRIFT":
                l1.append(int(f[2]))
        if not (r.rc == 0 and ended):
            if lv == 1:
                l1.append(-1)
            else:
                raise HarnessError(f"TLC failed on {tag} shard {k} level {lv}: {r.out[-2000:]}")
    # report: the failing line with the run it belongs to
    if l2:
        lines = {}
        want = set(sorted(l2)[:3])
        run, n = [], 0
        with open(trace) as f:
            f.readline()
            for line in f:
                n += 1
                if '"e":"reset"' in line:
                    run = []
                run.append(line.rstrip("\n"))
                if n in want:
                    lines[n] = list(run)
        for rid in sorted(want):
            r = lines.get(rid, [])
            head = json.loads(r[0]) if r else {}
            violation(ctx, f"{tag}: schedule of scenario {head.get('scen')} violates the C06 monitor at event {r[-1] if r else rid}",
                      {"signature": f"conc:{head.get('scen')}", "scenario": head.get("scen"), "schedule": r})
    if l1:
        ctx.cov["spec_drift"].append(f"{tag}: {len(l1)} runs leave the PtrConc model (L1), first line ids {sorted(l1)[:5]}")
    ctx.cov["traces_validated_against_impl"] += nruns
    ctx.cov["impl_runs"].append({"phase": tag, "scenarios": len(scenarios), "schedules_explored": summ.get("runs"), "events": summ.get("events"),
                                 "pruned_at_visited_state": summ.get("pruned"), "hangs": summ.get("hangs"), "trace_lines": nlines,
                                 "l2_failures": len(l2), "l1_mismatches": len(l1), "wall_s": round(time.time() - t, 1)})
    if len(ctx.cov["samples"]) < 4:
        with open(trace) as f:
            f.readline()
            ctx.cov["samples"].append({"phase": tag, "first_run": [json.loads(next(f)) for _ in range(12)]})
    ctx.log(f"{tag}: {len(scenarios)} scenarios, {summ.get('runs')} schedules ({summ.get('events')} events) validated, L2 failures={len(l2)}, L1 mismatches={len(l1)}")
    for p in parts:
        os.unlink(p)
    if not l2:
        os.unlink(trace)


def scen(threads):
    return f"{len(threads)}:" + ":".join(f"{r},{o}" for r, o in threads)


# four-thread scenarios: too large for exhaustive schedule enumeration on the real code; sampled
FOUR = [scen([("owner", "reset1"), ("weak", "lock"), ("weak", "lock"), ("weak", "lock")]),
        scen([("owner", "reset1"), ("weak", "lock"), ("weak", "lock"), ("weak", "wreset")]),
        scen([("both", "reset1"), ("weak", "lock"), ("both", "lock"), ("owner", "share")]),
        scen([("owner", "reset1"), ("owner", "reset1"), ("weak", "lock"), ("weak", "lock")])]


# programs of two operations: the second one meets what the first one left behind (an occupied share / lock
# target is let go inside the same public call, a thread locks its own weak pointer right after dropping its
# own owner, a weak pointer is re-pointed) while another thread is in the middle of its own operation
PAIRS = ["share+share", "share+lock", "lock+lock", "lock+share", "wfrom+lock", "reset1+lock", "wreset+wfrom",
         "share+reset1", "lock+reset1", "wfrom+wfrom", "reset1+share", "lock+wreset"]
PARTNERS = [("owner", "reset1"), ("weak", "lock"), ("both", "lock"), ("both", "reset1"), ("weak", "wreset"), ("owner", "share")]


def two_op_scenarios(quick):
    both2 = [("both", "reset1+lock"), ("both", "share+share"), ("both", "lock+lock"), ("both", "lock+reset1"), ("weak", "lock+lock"), ("both", "wreset+wfrom")]
    if quick:
        out = [scen([(r, p), b]) for r in ("both", "weak") for p in PAIRS[:6] for b in (PARTNERS[0], PARTNERS[1], PARTNERS[3])
               if not (r == "weak" and not p.endswith("lock"))]
        out += [scen([a, b]) for k, a in enumerate(both2[:3]) for b in both2[k:3]]
        return out
    out = [scen([(r, p), b]) for r in ("both", "owner", "weak") for p in PAIRS for b in PARTNERS]
    out += [scen([a, b]) for k, a in enumerate(both2) for b in both2[k:]]
    if not quick:
        out += [scen([(r, p), (r2, p2)]) for r in ("both", "weak") for p in PAIRS for r2 in ("both", "owner") for p2 in PAIRS if (r, p) < (r2, p2)]
    return out


def run(ctx):
    props = {ctx.pid}
    exe = build_conc(ctx)
    # One thread is an interleaving too: the clear callback runs *inside* the reset that dropped the last owner and
    # may call back into the library (it resets, or locks, a weak pointer to the very allocation being torn down).
    # "Preserves C05" and "no thread waits forever" are judged on the sequential closure of the pointer model with
    # those callbacks (kinds 2 and 3 of Ptr.tla); a hang is an outcome of the recorded transition.
    from . import p_ptr
    pexe = build(ctx, "drv_ptr", "drv_ptr.c", p_ptr.LIB, wrap=p_ptr.WRAP)
    p_ptr.closure(ctx, pexe, "reentrant-s2w1", 2, 1, 0, False, False, {"C05": "C06"})
    # L0: every interleaving of every pair of operations x initial configurations, safety + race freedom + termination
    l0_conc(ctx, "t2", 2, ROLES, OPS)
    per = [(r, o) for r in ROLES for o in OPS]
    two = [scen([a, b]) for a in per for b in per if not (a[0] == "none" and b[0] == "none")]
    if ctx.quick:
        # the real code: all 2-thread pairs over owner/weak/both, and the two 3-thread races around the spin lock
        two = [s for s in two if "none" not in s]
        conc_phase(ctx, "impl-t2", exe, two, props)
        conc_phase(ctx, "impl-t3", exe, [scen([("owner", "reset1"), ("weak", "lock"), ("weak", "lock")]),
                                         scen([("owner", "reset1"), ("weak", "lock"), ("weak", "wreset")])], props)
        # two operations per thread: model (every pair over five operations) and the real code (selected pairs)
        # (quick: three operations in the model, a budget of schedules per scenario on the real code; thorough: all)
        l0_conc(ctx, "t2p2", 2, ["owner", "weak", "both"], ["reset1", "share", "lock"], plen=2, live=False)
        conc_phase(ctx, "impl-t2p2", exe, two_op_scenarios(True), props, maxruns=600)
        # larger scenarios: randomly sampled schedules (no pruning)
        conc_phase(ctx, "rand-t4", exe, FOUR, props, maxruns=-2500)
    else:
        l0_conc(ctx, "t3", 3, ["owner", "weak", "both"], ["reset1", "lock", "wreset", "share"])
        l0_conc(ctx, "t4", 4, ["owner", "weak"], ["reset1", "lock", "wreset"], live=False)
        conc_phase(ctx, "impl-t2", exe, two, props)
        l0_conc(ctx, "t2p2", 2, ["owner", "weak", "both"], ["reset1", "share", "wfrom", "lock", "wreset"], plen=2)
        conc_phase(ctx, "impl-t2p2", exe, two_op_scenarios(False), props, maxruns=3000, max_events=8000000)
        conc_phase(ctx, "impl-t2-noclr", exe, [s for s in two if "none" not in s and ("lock" in s or "reset1" in s)], props, clr=False)
        three = [scen([a, b, c]) for a, b, c in [
            (("owner", "reset1"), ("weak", "lock"), ("weak", "lock")),
            (("owner", "reset1"), ("weak", "lock"), ("weak", "wreset")),
            (("both", "reset1"), ("both", "lock"), ("weak", "lock")),
            (("owner", "share"), ("weak", "lock"), ("owner", "reset1")),
            (("owner", "reset1"), ("both", "wfrom"), ("weak", "lock")),
            (("both", "lock"), ("both", "lock"), ("owner", "reset1")),
            (("owner", "reset1"), ("owner", "get1"), ("weak", "lock")),
            (("owner", "uniq1"), ("weak", "lock"), ("owner", "reset1"))]]
        # exhaustive per scenario up to a budget of schedules (the trace re-logs the shared prefix of every run)
        conc_phase(ctx, "impl-t3", exe, three, props, maxruns=15000)
        conc_phase(ctx, "rand-t4", exe, FOUR, props, maxruns=-40000)
    # a long life of one allocation (7*10^4 locks that succeed, as many that fail) on one thread: nobody waits forever
    from . import p_big
    p_big.big_phase(ctx, ["refs:70000"])
    ctx.cov["exhaustive"] = not ctx.violations and not ctx.cov["spec_drift"]
    ctx.assumptions += [
        "all synchronisation in memory.c is seq_cst (C11 defaults), so sequentially consistent interleavings at atomic-step granularity are all behaviours; a data race exists iff some interleaving makes two conflicting plain accesses adjacent, which the scheduler's pending-operation check observes",
        "memory.c is compiled with -fsanitize=thread and linked against the driver's own __tsan_* entry points (no TSan runtime): atomics and plain accesses of the bookkeeping block are scheduling points of a deterministic scheduler; consecutive plain accesses of one kind by one thread form one event",
        "schedule enumeration prunes at visited states (shared words, block liveness, per-thread observation hash); the spin in cstl_weak_ptr_lock is treated fairly (a spinner is parked until another thread moves)",
        "real-thread runs under ThreadSanitizer are a different technique and are not used; each thread uses only its own pointer objects (the property's domain)",
    ]
    write_evidence(ctx)
    if not ctx.violations:
        shutil.rmtree(ctx.work, ignore_errors=True)
    return 1 if ctx.violations else 0
