/*
 * drv_sort.c — records runs of the raw-array / vector algorithms of src/array.c, src/vector.c (C11):
 * cstl_raw_array_sort, __cstl_vector_sort, cstl_raw_array_search/find/reverse and the vector wrappers.
 *
 * usage: drv_sort <out> exhaustive <maxlen> <maxdraws>     all arrays over {1,2,3} up to maxlen, every selector,
 *                                                          element sizes 1,2,3,4,8,16,12,24, every rand() draw sequence
 *        drv_sort <out> large <n> <seed>                   adversarial inputs of n elements
 *
 * Every call the library makes to the comparison and swap callbacks is logged with the element indexes
 * recovered from the pointers (-1 = the caller's probe, -99 = neither the array nor the probe);
 * rand() is wrapped at link time so the driver chooses every pivot draw.  The array and the scratch
 * element sit between guard bytes.  Elements of two or more bytes carry a unique id behind the value
 * byte, so "byte-identical, nothing lost or duplicated" is visible.
 */
#define _GNU_SOURCE
#include <stdio.h>
#include <stdlib.h>
#include <string.h>
#include <stdint.h>
#include <signal.h>
#include <setjmp.h>
#include <unistd.h>
#include <sys/time.h>
#include "cstl/array.h"
#include "cstl/vector.h"
/* a run that does not come back is judged on this process's CPU time (a busy machine is not a hang) */
static void cpu_limit(int secs) { struct itimerval it; memset(&it, 0, sizeof it); it.it_value.tv_sec = secs; setitimer(ITIMER_PROF, &it, NULL); }

#define GUARD 64
#define MAXN 8192
static unsigned char *buf;            /* guard | array | guard | scratch | guard */
static unsigned char *arr, *scratch;
static size_t ESZ, N;
static unsigned char probe[64];
static const unsigned char *alias_probe;   /* a probe that is itself an element of the searched array */
static FILE *out;
static long nrec;

/* ---- every block the library allocates (the vector's storage) gets trailing guard bytes ---- */
void *__real_malloc(size_t); void *__real_realloc(void *, size_t); void __real_free(void *);
#define HG 64
static struct { unsigned char *p; size_t n; } hb[64]; static int nhb;
static int in_lib;
static void hb_add(unsigned char *p, size_t n) { if (nhb < 64) { hb[nhb].p = p; hb[nhb].n = n; nhb++; } memset(p + n, 0xC5, HG); }
static int hb_find(void *p) { int i; for (i = 0; i < nhb; i++) if (hb[i].p == p) return i; return -1; }
void *__wrap_malloc(size_t n) { unsigned char *p; if (!in_lib) return __real_malloc(n); p = __real_malloc(n + HG); if (p) hb_add(p, n); return p; }
void *__wrap_realloc(void *q, size_t n)
{
    unsigned char *p; int i = q ? hb_find(q) : -1;
    if (!in_lib && i < 0) return __real_realloc(q, n);
    p = __real_realloc(q, n + HG);
    if (p) { if (i >= 0) { hb[i] = hb[--nhb]; } hb_add(p, n); }
    return p;
}
void __wrap_free(void *q) { int i = q ? hb_find(q) : -1; if (i >= 0) hb[i] = hb[--nhb]; __real_free(q); }
static int vguard = 1;
static int heap_guards_ok(void)
{
    if (!vguard) return 0;
    int i; size_t j;
    for (i = 0; i < nhb; i++) for (j = 0; j < HG; j++) if (hb[i].p[hb[i].n + j] != 0xC5) return 0;
    return 1;
}

/* ---- event log ---- */
static char *ev; static size_t evn, evcap; static long nev;
static void ev_add(char k, long x, long y)
{
    if (evn + 64 > evcap) { evcap = evcap ? evcap * 2 : 1 << 16; ev = realloc(ev, evcap); }
    evn += (size_t)sprintf(ev + evn, "%s[\"%c\",%ld,%ld]", nev++ ? "," : "", k, x, y);
}
static long idx_of(const void *p)
{
    const unsigned char *q = p;
    if (q == probe) return -1;
    if (q >= arr && q < arr + N * ESZ && (size_t)(q - arr) % ESZ == 0) return (long)((size_t)(q - arr) / ESZ);
    return -99;
}
static int priv_token, priv_ok = 1;
/* the sign is the contract; the magnitude is deliberately uninformative (see e_cmp3 in engine.h) */
static int cmp3(long a, long b)
{
    long d = a - b, m = d > 0 ? d : -d; int s = d > 0 ? 1 : -1;
    if (d == 0) return 0;
    switch ((unsigned long)(a + b) % 5) {
    case 0: return s;
    case 1: return s * (int)(1000 / m + 1);
    case 2: return s * (int)(m > 30000 ? 30000 : m);
    case 3: return s * (0x40000000 + (int)(m & 0xffff));      /* any int of the right sign: also ones whose product overflows */
    default: return s * 0x7fffffff;
    }
}
static int cmp(const void *a, const void *b, void *p)
{
    if (p != (void *)&priv_token) priv_ok = 0;
    /* a probe that lives inside the array is still "the probe" in the position the library passes the probe in (first) */
    ev_add('c', alias_probe && a == alias_probe ? -1 : idx_of(a), idx_of(b));
    return cmp3(*(const unsigned char *)a, *(const unsigned char *)b);
}
static int swap_scratch_ok = 1;
static void swp(void *a, void *b, void *t, size_t len)
{
    ev_add('s', idx_of(a), idx_of(b));
    if (t != scratch || len != ESZ) swap_scratch_ok = 0;
    cstl_swap(a, b, t, len);
}
/* ---- rand() under the driver's control ---- */
#define MAXD 16
static int draws[MAXD], ndrawn, maxdraws, drawspan = 1 << 30;
int __wrap_rand(void)
{
    /* draws[] holds an index into the values rand() may produce: 0..drawspan-1 as themselves, then RAND_MAX and
     * RAND_MAX - 1 (legal return values an index computation must survive) */
    int v = ndrawn < maxdraws && ndrawn < MAXD ? draws[ndrawn] : 0;
    ndrawn++;
    if (v >= drawspan) v = v == drawspan ? RAND_MAX : RAND_MAX - 1;
    return v;
}
static sigjmp_buf jb;
static void onsig(int s) { siglongjmp(jb, s); }

static void layout(size_t n, size_t esz)
{
    N = n; ESZ = esz;
    memset(buf, 0xC5, 3 * GUARD + (n + 1) * esz + 64);
    arr = buf + GUARD;
    scratch = arr + n * esz + GUARD;
}
static int guards_ok(void)
{
    size_t i;
    for (i = 0; i < GUARD; i++) if (buf[i] != 0xC5) return 0;
    for (i = 0; i < GUARD; i++) if (arr[N * ESZ + i] != 0xC5) return 0;
    for (i = 0; i < GUARD; i++) if (scratch[ESZ + i] != 0xC5) return 0;
    return 1;
}
static void fill(const int *vals)
{
    size_t i, j;
    for (i = 0; i < N; i++) {
        unsigned char *e = arr + i * ESZ;
        e[0] = (unsigned char)vals[i];
        if (ESZ >= 3) { e[1] = (unsigned char)((i + 1) & 0xff); e[2] = (unsigned char)((i + 1) >> 8); for (j = 3; j < ESZ; j++) e[j] = (unsigned char)(0x30 + j + 7 * (i + 1)); }    /* every byte of an element names it */
        else if (ESZ == 2) e[1] = (unsigned char)(i + 1);
    }
}
static long id_at(size_t i)
{
    const unsigned char *e = arr + i * ESZ; size_t j;
    if (ESZ == 1) return 0;
    if (ESZ == 2) return e[1];
    for (j = 3; j < ESZ; j++) if (e[j] != (unsigned char)(0x30 + j + 7 * (size_t)(e[1] | (e[2] << 8)))) return -1;     /* a mixture of two elements */
    return e[1] | (e[2] << 8);
}
static void put_arr(const char *name)
{
    size_t i;
    fprintf(out, "\"%s\":[", name);
    for (i = 0; i < N; i++) fprintf(out, "%s%d", i ? "," : "", arr[i * ESZ]);
    fputs("]", out);
}
static void put_ids(void)
{
    size_t i;
    fputs("\"ids\":[", out);
    if (ESZ > 1) for (i = 0; i < N; i++) fprintf(out, "%s%ld", i ? "," : "", id_at(i));
    fputs("]", out);
}
static void begin_rec(const char *op) { vguard = 1; fprintf(out, "{\"id\":%ld,\"op\":\"%s\",\"esz\":%zu,", ++nrec, op, ESZ); evn = 0; nev = 0; if (ev) ev[0] = 0; swap_scratch_ok = 1; priv_ok = 1; }
static void end_rec(const char *outcome, int full_events)
{
    fprintf(out, ",\"out\":\"%s\",\"hguards\":%s,\"guards\":%s,", outcome, heap_guards_ok() ? "true" : "false",
            guards_ok() ? "true" : "false");
    fprintf(out, "\"scratch\":%s,\"nev\":%ld,\"ev\":[%s]}\n", swap_scratch_ok && priv_ok ? "true" : "false", nev, full_events && ev ? ev : "");
    return;
    fprintf(out, ",\"out\":\"%s\",\"guards\":%s,\"scratch\":%s,\"nev\":%ld,\"ev\":[%s]}\n", outcome, guards_ok() ? "true" : "false",
            swap_scratch_ok && priv_ok ? "true" : "false", nev, full_events && ev ? ev : "");
}
static const char *protect_begin(void)
{
    return NULL;
}

/* one sort run; via = 0 raw array, 1 through a vector object */
static void run_sort(const int *vals, size_t n, size_t esz, int algo, int via, int full_events)
{
    int sig; size_t i;
    layout(n, esz); fill(vals);
    begin_rec("sort");
    fprintf(out, "\"algo\":%d,\"via\":%d,", algo, via); put_arr("A"); fputs(",", out);
    ndrawn = 0;
    (void)protect_begin();
    sig = sigsetjmp(jb, 1);
    if (sig == 0) {
        cpu_limit(60);
        if (via == 0) cstl_raw_array_sort(arr, n, esz, cmp, &priv_token, swp, scratch, (cstl_sort_algorithm_t)algo);
        else {
            /* a vector whose storage is our buffer: cap = n puts its scratch slot where ours is only if
             * contiguous, so lay the vector out itself: base = arr, count = n, cap = n + GUARD/esz is wrong;
             * instead use a genuine vector and copy in and out */
            struct cstl_vector v; unsigned char *keep_arr = arr, *keep_scr = scratch;
            in_lib = 1;
            cstl_vector_init(&v, esz);
            if (via == 2) { cstl_vector_resize(&v, n + 5); cstl_vector_resize(&v, n); cstl_vector_shrink_to_fit(&v); }
            else cstl_vector_resize(&v, n);
            if (n) memcpy(cstl_vector_data(&v), keep_arr, n * esz);
            arr = cstl_vector_data(&v); scratch = arr ? arr + cstl_vector_capacity(&v) * esz : NULL;
            __cstl_vector_sort(&v, cmp, &priv_token, swp, (cstl_sort_algorithm_t)algo);
            if (n) memcpy(keep_arr, arr, n * esz);
            arr = keep_arr; scratch = keep_scr;
            vguard = heap_guards_ok();
            cstl_vector_clear(&v);
            in_lib = 0;
        }
        cpu_limit(0);
        fputs("\"dr\":[", out);
        for (i = 0; i < (size_t)ndrawn && i < MAXD; i++) {
            int v = i < (size_t)maxdraws ? draws[i] : 0;
            if (v >= drawspan) v = v == drawspan ? RAND_MAX : RAND_MAX - 1;
            fprintf(out, "%s%d", i ? "," : "", v);
        }
        fputs("],", out);
        put_arr("A1"); fputs(",", out); put_ids();
        end_rec("ok", full_events);
    } else {
        cpu_limit(0);
        fputs("\"dr\":[],\"A1\":[],\"ids\":[]", out);
        end_rec((sig == SIGALRM || sig == SIGPROF) ? "hang" : sig == SIGABRT ? "abort" : "segv", 0);
    }
}
static void run_probe(const char *op, const int *vals, size_t n, size_t esz, int x, int via, int alias)
{
    long r = -7; int sig; const void *pp = probe;
    layout(n, esz); fill(vals);
    memset(probe, 0, sizeof probe); probe[0] = (unsigned char)x;
    begin_rec(op);
    fprintf(out, "\"x\":%d,\"via\":%d,\"alias\":%d,", x, via, alias); put_arr("A"); fputs(",", out);
    alias_probe = NULL;
    sig = sigsetjmp(jb, 1);
    if (sig == 0) {
        cpu_limit(60);
        if (via == 0) {
            if (alias >= 0) pp = alias_probe = arr + (size_t)alias * esz;
            if (!strcmp(op, "search")) r = (long)cstl_raw_array_search(arr, n, esz, pp, cmp, &priv_token);
            else if (!strcmp(op, "find")) r = (long)cstl_raw_array_find(arr, n, esz, pp, cmp, &priv_token);
            else cstl_raw_array_reverse(arr, n, esz, swp, scratch);
        } else {
            struct cstl_vector v; unsigned char *keep_arr = arr, *keep_scr = scratch;
            cstl_vector_init(&v, esz); cstl_vector_resize(&v, n);
            if (n) memcpy(cstl_vector_data(&v), keep_arr, n * esz);
            arr = cstl_vector_data(&v); scratch = arr ? arr + cstl_vector_capacity(&v) * esz : NULL;
            if (alias >= 0) pp = alias_probe = arr + (size_t)alias * esz;          /* e.g. what cstl_vector_at() hands out */
            if (!strcmp(op, "search")) r = (long)cstl_vector_search(&v, pp, cmp, &priv_token);
            else if (!strcmp(op, "find")) r = (long)cstl_vector_find(&v, pp, cmp, &priv_token);
            else __cstl_vector_reverse(&v, swp);
            if (n) memcpy(keep_arr, arr, n * esz);
            arr = keep_arr; scratch = keep_scr;
            cstl_vector_clear(&v);
        }
        cpu_limit(0); alias_probe = NULL;
        fprintf(out, "\"ret\":%ld,", r); put_arr("A1"); fputs(",", out); put_ids();
        end_rec("ok", 1);
    } else { cpu_limit(0); fputs("\"ret\":0,\"A1\":[],\"ids\":[]", out); end_rec((sig == SIGALRM || sig == SIGPROF) ? "hang" : "segv", 0); }
}

static int icmp(const void *a, const void *b) { return *(const int *)a - *(const int *)b; }
int main(int argc, char **argv)
{
    static const size_t sizes[] = { 1, 2, 3, 4, 8, 16, 12, 24 };      /* 12: wider than a word and not a multiple of one */
    static const int algos[] = { 0, 1, 2, 3, 7 };
    int vals[MAXN];
    if (argc < 4) return 64;
    out = fopen(argv[1], "w"); if (!out) return 73;
    buf = malloc(3 * GUARD + (MAXN + 1) * 64 + 64);
    signal(SIGSEGV, onsig); signal(SIGBUS, onsig); signal(SIGABRT, onsig); signal(SIGALRM, onsig); signal(SIGPROF, onsig); signal(SIGFPE, onsig);
    fprintf(out, "{\"id\":0,\"hdr\":true}\n");
    if (!strcmp(argv[2], "exhaustive")) {
        int maxlen = atoi(argv[3]); int len, k; size_t si; long code, total;
        maxdraws = argc > 4 ? atoi(argv[4]) : 4;
        for (len = 0; len <= maxlen; len++) {
            for (total = 1, k = 0; k < len; k++) total *= 3;
            for (code = 0; code < total; code++) {
                long c = code; int sorted[16];
                for (k = 0; k < len; k++) { vals[k] = 1 + (int)(c % 3); c /= 3; }
                for (si = 0; si < sizeof sizes / sizeof sizes[0]; si++) {
                    size_t esz = sizes[si]; int ai;
                    for (ai = 0; ai < 5; ai++) {
                        int algo = algos[ai], via = (int)((code + ai + si) % 3);
                        if (algo != 1) { run_sort(vals, (size_t)len, esz, algo, via, 1); continue; }
                        if (si > 1) continue;                 /* every draw sequence: element sizes 1 and 2 */
                        /* enumerate every sequence of draws rand() can produce (values 0..len-1) */
                        memset(draws, 0, sizeof draws);
                        drawspan = len > 0 ? len : 1;
                        for (;;) {
                            int pos;
                            run_sort(vals, (size_t)len, esz, 1, via, 1);
                            pos = (ndrawn < maxdraws ? ndrawn : maxdraws) - 1;
                            while (pos >= 0 && draws[pos] >= drawspan + 1) pos--;
                            if (pos < 0) break;
                            draws[pos]++;
                            for (k = pos + 1; k < MAXD; k++) draws[k] = 0;
                        }
                    }
                    /* search on the sorted array, find and reverse on the array as it is */
                    memcpy(sorted, vals, sizeof(int) * (size_t)len); qsort(sorted, (size_t)len, sizeof(int), icmp);
                    if (si % 2 == 0) for (k = 0; k <= 4; k++) {
                        run_probe("search", sorted, (size_t)len, esz, k, (int)(code & 1), -1);
                        run_probe("find", vals, (size_t)len, esz, k, (int)((code >> 1) & 1), -1);
                    }
                    /* the probe is an element of the array itself (a pointer from cstl_vector_at, say) */
                    if (si % 2 == 0) for (k = 0; k < len; k++) {
                        run_probe("search", sorted, (size_t)len, esz, sorted[k], (int)((code >> 1) & 1), k);
                        run_probe("find", vals, (size_t)len, esz, vals[k], (int)(code & 1), k);
                    }
                    run_probe("reverse", vals, (size_t)len, esz, 0, (int)(code & 1), -1);
                }
            }
        }
    } else {
        int n = atoi(argv[3]), k, pat; unsigned long s = strtoul(argv[4], NULL, 10) * 2654435761UL + 12345; size_t si;
        maxdraws = 0;
        if (n > MAXN) n = MAXN;
        for (pat = 0; pat < 6; pat++) {
            for (k = 0; k < n; k++) {
                s = s * 6364136223846793005UL + 1442695040888963407UL;
                switch (pat) {
                case 0: vals[k] = 1 + (k * 200) / (n ? n : 1); break;                         /* sorted */
                case 1: vals[k] = 201 - (k * 200) / (n ? n : 1); break;                        /* reversed */
                case 2: vals[k] = 7; break;                                                   /* constant */
                case 3: vals[k] = 1 + (int)((s >> 33) & 1); break;                            /* two-valued */
                case 4: vals[k] = 1 + (k < n / 2 ? (k * 400) / (n ? n : 1) : ((n - 1 - k) * 400) / (n ? n : 1)); break; /* organ pipe */
                default: vals[k] = 1 + (int)((s >> 33) % 250); break;                         /* random */
                }
            }
            for (si = 0; si < sizeof sizes / sizeof sizes[0]; si += 2) {
                int ai;
                for (ai = 0; ai < 5; ai++) {
                    int algo = algos[ai];
                    if ((algo == 0 || algo == 1) && pat <= 2 && n > 1200) continue;   /* quadratic recursion depth on purpose-built inputs */
                    maxdraws = 0;
                    run_sort(vals, (size_t)n, sizes[si], algo, (pat + ai) & 1, n <= 64);
                }
            }
        }
    }
    fclose(out);
    printf("{\"records\":%ld}\n", nrec);
    return 0;
}
