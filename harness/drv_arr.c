/*
 * drv_arr.c — conformance driver for the array-view objects of src/array.c (C14, array part of C20).
 * scope args: <na> <maxn> <faults 0|1> <stray 0|1>
 * terms packed as kind*1000+n (kind 1 = SIZE_MAX - n)
 * ops: 0 alloc(a, nmT, sz, failmask) 1 set(a, e, sz, failmask) 2 slice(a, begT, endT, s) 3 unslice(s, a)
 *      4 reset(a) 5 release(a) 6 at(a, iT) 7 data(a) 8 size(a) 9 stray(f, pos, x, y)
 * Descriptors are named by their index in the canonical order (first reference
 * from A1..) of the state before the operation; 99 = created by the operation.
 * The private descriptor {sz, nm, buf} is read through a mirror of its layout.
 */
#include "alloc.h"
#include "cstl/array.h"

#define MAXO 4
#define MAXD 4096
#define NEWIDX 99
struct raw_mirror { size_t sz, nm; void *buf; };
static int NA, MAXN, FAULTS, STRAY;
static cstl_array_t A[MAXO + 1];
static uint32_t EXT[3][64];

static struct { void *d, *m; } tab[MAXD]; static int ntab;     /* bookkeeping block / descriptor memory pairs */
static void *mem_of_d(const void *d) { int i; for (i = 0; i < ntab; i++) if (tab[i].d == d) return tab[i].m; return NULL; }
static void *pre_d[MAXO + 1]; static int npre;
static void *raw_ptr(const cstl_array_t *a) { return a->ptr.data.ptr; }
static void snapshot(void)
{
    int i, j;
    npre = 0;
    for (i = 1; i <= NA; i++) {
        void *d = raw_ptr(&A[i]); int seen = 0;
        if (!d) continue;
        for (j = 0; j < npre; j++) if (pre_d[j] == d) seen = 1;
        if (!seen) pre_d[npre++] = d;
    }
}
static int pre_index(const void *d) { int i; if (!d) return 0; for (i = 0; i < npre; i++) if (pre_d[i] == d) return i + 1; return NEWIDX; }
static int nalloc_in_op; static void *new_d;
static void hook(const char *kind, void *oldp, void *newp, size_t n)
{
    int i;
    (void)n;
    if (!strcmp(kind, "allocfail")) { ev_add("[\"allocfail\"]"); nalloc_in_op++; return; }
    if (!strcmp(kind, "alloc")) {
        if (nalloc_in_op == 0) { ev_add("[\"allocd\"]"); new_d = newp; if (ntab < MAXD) { tab[ntab].d = newp; tab[ntab].m = NULL; ntab++; } }
        else { ev_add("[\"allocm\"]"); if (ntab) tab[ntab - 1].m = newp; }
        nalloc_in_op++;
        return;
    }
    for (i = 0; i < npre; i++) {
        if (pre_d[i] == oldp) { ev_add("[\"freed\",%d]", i + 1); return; }
        if (mem_of_d(pre_d[i]) == oldp) { ev_add("[\"freem\",%d]", i + 1); return; }
    }
    if (oldp == new_d) { ev_add("[\"freed\",%d]", NEWIDX); return; }
    if (new_d && mem_of_d(new_d) == oldp) { ev_add("[\"freem\",%d]", NEWIDX); return; }
    ev_add("[\"free?\"]");
}
static size_t term(int packed) { int k = packed / 1000, n = packed % 1000; return k ? SIZE_MAX - (size_t)n : (size_t)n; }
static void term_json(jb_t *b, const char *name, int packed) { jb_printf(b, "\"%s\":{\"k\":\"%s\",\"n\":%d}", name, packed / 1000 ? "max" : "n", packed % 1000); }

static void drv_setup(int argc, char **argv)
{
    if (argc < 4) { fprintf(stderr, "drv_arr: scope = <na> <maxn> <faults> <stray>\n"); exit(64); }
    NA = atoi(argv[0]); MAXN = atoi(argv[1]); FAULTS = atoi(argv[2]); STRAY = atoi(argv[3]);
    if (NA > MAXO || MAXN > 60) exit(64);
}
static void drv_header(jb_t *b) { jb_printf(b, "\"na\":%d,\"maxn\":%d,\"faults\":%s", NA, MAXN, FAULTS ? "true" : "false"); }
static void drv_reset(void)
{
    int i;
    a_reset(); a_hook = hook; ntab = 0; new_d = NULL;
#ifdef USE_INITIALIZER
    for (i = 0; i <= MAXO; i++) { cstl_array_t x = CSTL_ARRAY_INITIALIZER(A[i]); A[i] = x; }
#else
    for (i = 0; i <= MAXO; i++) cstl_array_init(&A[i]);
#endif
}
static void drv_aborted(void) { a_end(); }

/* an address returned for object a, relative to the buffer of a's descriptor:
 * [descriptor index in the pre-state numbering, byte offset] (offset -1: not expressible) */
static void locate(const void *p, int a, int *d, long *o)
{
    void *dp = raw_ptr(&A[a]); struct raw_mirror *ra = dp ? mem_of_d(dp) : NULL;
    *d = 0; *o = 0;
    if (!p) return;
    if (!ra) { *d = -1; return; }
    *d = pre_index(dp);
    *o = ((uintptr_t)p >= (uintptr_t)ra->buf && (uintptr_t)p - (uintptr_t)ra->buf < ((size_t)1 << 28)) ? (long)((uintptr_t)p - (uintptr_t)ra->buf) : -1;
}

static const char *FN[] = { "?", "aalloc", "aset", "arelease", "areset", "adata", "aat", "aslice", "aunslice", "asize", "ainit",
                            "aallocbig", "aalloc0", "aslicebad", "aatbig" };
#define NFN 14
static int fn_nargs(int f) { return (f == 7 || f == 8) ? 2 : 1; }
static void call_fn(int f, cstl_array_t *a1, cstl_array_t *a2)
{
    void *b = NULL;
    switch (f) {
    case 1: cstl_array_alloc(a1, 2, 4); break;
    case 2: cstl_array_set(a1, EXT[1], 3, 4); break;
    case 3: cstl_array_release(a1, &b); break;
    case 4: cstl_array_reset(a1); break;
    case 5: (void)cstl_array_data(a1); break;
    case 6: (void)cstl_array_at(a1, 0); break;
    case 7: cstl_array_slice(a1, 0, 0, a2); break;
    case 8: cstl_array_unslice(a1, a2); break;
    case 9: (void)cstl_array_size(a1); break;
    case 10: cstl_array_init(a1); break;
    /* error and boundary paths: a size whose byte count cannot be represented, zero elements,
     * a slice that is refused anyway, an index that is refused anyway */
    case 11: cstl_array_alloc(a1, SIZE_MAX / 4, 8); break;
    case 12: cstl_array_alloc(a1, 0, 4); break;
    case 13: cstl_array_slice(a1, 2, 1, a1); break;
    case 14: (void)cstl_array_at(a1, SIZE_MAX); break;
    }
}

static void drv_apply(const vop_t *op, jb_t *res)
{
    const int *a = op->a;
    int i;
    snapshot(); nalloc_in_op = 0; new_d = NULL;
    switch (op->k) {
    case 0: a_begin((unsigned long)a[3]); cstl_array_alloc(&A[a[0]], term(a[1]), a[2] < 0 ? (size_t)1 << -a[2] : (size_t)a[2]);      /* a[2] = -e: elements of 2^e bytes */ a_end(); jb_puts(res, ",\"ret\":0"); break;
    case 1: a_begin((unsigned long)a[3]); cstl_array_set(&A[a[0]], EXT[a[1]], (size_t)MAXN, (size_t)a[2]); a_end(); jb_puts(res, ",\"ret\":0"); break;
    case 2: a_begin(0); cstl_array_slice(&A[a[0]], term(a[1]), term(a[2]), &A[a[3]]); a_end(); jb_puts(res, ",\"ret\":0"); break;
    case 3: a_begin(0); cstl_array_unslice(&A[a[0]], &A[a[1]]); a_end(); jb_puts(res, ",\"ret\":0"); break;
    case 4: a_begin(0); cstl_array_reset(&A[a[0]]); a_end(); jb_puts(res, ",\"ret\":0"); break;
    case 5: {
        void *b = (void *)&b; int e = 0;
        a_begin(0); cstl_array_release(&A[a[0]], a[1] ? NULL : &b); a_end();
        if (a[1]) b = NULL;                                 /* NULL out-parameter: nothing to look at */
        if (b == (void *)EXT[1]) e = 1; else if (b == (void *)EXT[2]) e = 2; else if (b != NULL) e = -1;
        jb_printf(res, ",\"ret\":%d", e);
        break;
    }
    case 6: { int d; long o; const void *p = cstl_array_at(&A[a[0]], term(a[1])); locate(p, a[0], &d, &o); jb_printf(res, ",\"ret\":[%d,%ld]", d, o); break; }
    case 7: { int d; long o; const void *p = cstl_array_data(&A[a[0]]); locate(p, a[0], &d, &o); jb_printf(res, ",\"ret\":[%d,%ld]", d, o); break; }
    case 8: jb_puts(res, ",\"ret\":"); jb_size(res, cstl_array_size(&A[a[0]])); break;
    case 9: {
        cstl_array_t stray; int f = a[0], pos = a[1];
        cstl_array_t *a1, *a2 = NULL;
        memcpy(&stray, &A[a[2]], sizeof stray);
        /* pos 3: the same stray copy in both argument positions (slicing a stray copy in place, say) */
        a1 = pos != 2 ? &stray : &A[a[3]];
        if (fn_nargs(f) > 1) a2 = pos >= 2 ? &stray : &A[a[3]];
        a_begin(0); call_fn(f, a1, a2); a_end();
        jb_puts(res, ",\"ret\":0");
        break;
    }
    default: jb_puts(res, ",\"ret\":0");
    }
    jb_puts(res, ",\"tt\":[");
    for (i = 1; i <= NA; i++) jb_printf(res, "%s%d", i > 1 ? "," : "", pre_index(raw_ptr(&A[i])));
    jb_puts(res, "]");
}
static void drv_opjson(const vop_t *op, jb_t *b)
{
    const int *a = op->a;
    switch (op->k) {
    case 0: jb_printf(b, "\"op\":\"alloc\",\"a\":%d,", a[0]); term_json(b, "nm", a[1]);
            jb_printf(b, ",\"sz\":%d,\"ok\":[%s,%s]", a[2], (a[3] & 1) ? "false" : "true", (a[3] & 2) ? "false" : "true"); break;
    case 1: jb_printf(b, "\"op\":\"set\",\"a\":%d,\"e\":%d,\"enm\":%d,\"sz\":%d,\"ok\":[%s,%s]", a[0], a[1], MAXN, a[2],
                      (a[3] & 1) ? "false" : "true", (a[3] & 2) ? "false" : "true"); break;
    case 2: jb_printf(b, "\"op\":\"slice\",\"a\":%d,", a[0]); term_json(b, "beg", a[1]); jb_puts(b, ","); term_json(b, "end", a[2]); jb_printf(b, ",\"s\":%d", a[3]); break;
    case 3: jb_printf(b, "\"op\":\"unslice\",\"s\":%d,\"a\":%d", a[0], a[1]); break;
    case 4: jb_printf(b, "\"op\":\"reset\",\"a\":%d", a[0]); break;
    case 5: jb_printf(b, "\"op\":\"release\",\"a\":%d,\"nob\":%s", a[0], a[1] ? "true" : "false"); break;
    case 6: jb_printf(b, "\"op\":\"at\",\"a\":%d,", a[0]); term_json(b, "i", a[1]); break;
    case 7: jb_printf(b, "\"op\":\"data\",\"a\":%d", a[0]); break;
    case 8: jb_printf(b, "\"op\":\"size\",\"a\":%d", a[0]); break;
    case 9: jb_printf(b, "\"op\":\"stray\",\"f\":\"%s\",\"pos\":%d,\"x\":%d,\"y\":%d", a[0] >= 1 && a[0] <= NFN ? FN[a[0]] : "?", a[1], a[2], a[3]); break;
    default: jb_printf(b, "\"op\":\"?%d\"", op->k);
    }
}
static int drv_terminal(const vop_t *op) { return op->k == 9; }
static long small(size_t v) { return v < ((size_t)1 << 30) ? (long)v : -1L; }
static void drv_ser(jb_t *b)
{
    int i, n = 0, bad = 0; void *ord[MAXO + 1];
    jb_puts(b, "{\"obj\":[");
    for (i = 1; i <= NA; i++) {
        void *d = raw_ptr(&A[i]); int j, idx = 0, inb = 1;
        if (A[i].ptr.data.self != &A[i].ptr.data) bad = 1;
        if (d) { for (j = 0; j < n; j++) if (ord[j] == d) idx = j + 1; if (!idx) { ord[n++] = d; idx = n; } }
        /* API-level probe: every index below size must address live storage of this object's buffer */
        if (A[i].len > 0) {
            struct raw_mirror *ra = d ? mem_of_d(d) : NULL; a_blk_t *mb = ra ? a_find(ra) : NULL;
            size_t k, lim = A[i].len < 64 ? A[i].len : 64;
            if (!ra || !mb || !mb->live) inb = 0;
            else for (k = 0; k < lim; k++) {
                size_t idxk = (k < 32) ? k : A[i].len - (lim - k);          /* first and last indexes */
                uintptr_t p = (uintptr_t)ra->buf + (A[i].off + idxk) * ra->sz;  /* what cstl_array_at computes */
                uintptr_t lo, hi;
                if (ra->buf == (void *)(ra + 1)) { lo = (uintptr_t)(ra + 1); hi = (uintptr_t)ra + mb->n; }
                else if (ra->buf == (void *)EXT[1] || ra->buf == (void *)EXT[2]) { lo = (uintptr_t)ra->buf; hi = lo + sizeof EXT[1]; }
                else { inb = 0; break; }
                if (p < lo || p + ra->sz > hi || p + ra->sz < p) { inb = 0; break; }
            }
        }
        jb_printf(b, "%s{\"t\":%d,\"off\":%ld,\"len\":%ld,\"inb\":%s}", i > 1 ? "," : "", idx, small(A[i].off), small(A[i].len), inb ? "true" : "false");
    }
    jb_puts(b, "],\"desc\":[");
    for (i = 0; i < n; i++) {
        struct raw_mirror *ra = mem_of_d(ord[i]); a_blk_t *mb = ra ? a_find(ra) : NULL, *db = a_find(ord[i]);
        int ext = 0;
        if (!ra || !mb || !mb->live || !db || !db->live) { bad = 1; jb_printf(b, "%s{\"nm\":-1,\"sz\":-1,\"ext\":-1}", i ? "," : ""); continue; }
        if (ra->buf == (void *)EXT[1]) ext = 1; else if (ra->buf == (void *)EXT[2]) ext = 2; else if (ra->buf != (void *)(ra + 1)) ext = -1;
        if (ext == 0 && mb->n < sizeof *ra + ra->nm * ra->sz) bad = 1;      /* internal buffer smaller than nm*sz */
        jb_printf(b, "%s{\"nm\":%ld,\"sz\":%ld,\"ext\":%d}", i ? "," : "", small(ra->nm), small(ra->sz), ext);
    }
    jb_printf(b, "],\"nlive\":%d,\"damage\":%s,\"bad\":%s}", a_live_count(), a_check() ? "true" : "false", bad ? "true" : "false");
}
#define ADD(K, A0, A1, A2, A3) do { vop_t o_ = { K, { A0, A1, A2, A3 } }; ops[no++] = o_; } while (0)
static int drv_enum(vop_t *ops, int max)
{
    int no = 0, a, s, n, f, b, e, pos, x, y;
    static const int nms[3] = { 0, 2, -1 };
    (void)max;
    for (a = 1; a <= NA; a++) {
        for (n = 0; n < 3; n++) for (f = 0; f < (FAULTS ? 3 : 1); f++) ADD(0, a, nms[n] < 0 ? MAXN : nms[n], 4, f);
        for (n = 0; n < 2; n++) { ADD(0, a, 1000 + n, 1, 0); ADD(0, a, 1000 + n, 4, 0); }
        ADD(0, a, 16, -60, 0); ADD(0, a, 2, -63, 0);
        ADD(0, a, 1008, 1, 0); ADD(0, a, 1015, 1, 0); ADD(0, a, 1022, 1, 0);
        ADD(0, a, 2, 16, 0); if (MAXN != 2) ADD(0, a, MAXN, 16, 0);
        for (e = 1; e <= 2; e++) for (f = 0; f < (FAULTS ? 3 : 1); f++) ADD(1, a, e, 4, f);
        for (s = 1; s <= NA; s++) {
            for (b = 0; b <= MAXN + 3; b++) for (e = 0; e <= MAXN + 3; e++)
                ADD(2, a, b <= MAXN + 1 ? b : 1000 + (b - MAXN - 2), e <= MAXN + 1 ? e : 1000 + (e - MAXN - 2), s);
            ADD(3, s, a, 0, 0);
        }
        ADD(4, a, 0, 0, 0); ADD(5, a, 0, 0, 0); ADD(5, a, 1, 0, 0);
        for (b = 0; b <= MAXN + 3; b++) ADD(6, a, b <= MAXN + 1 ? b : 1000 + (b - MAXN - 2), 0, 0);
        ADD(7, a, 0, 0, 0); ADD(8, a, 0, 0, 0);
    }
    if (STRAY) for (f = 1; f <= NFN; f++) for (pos = 1; pos <= fn_nargs(f); pos++)
        for (x = 1; x <= NA; x++) for (y = 1; y <= (fn_nargs(f) > 1 ? NA : 1); y++) {
            if (fn_nargs(f) > 1 && y == x) continue;
            ADD(9, f, pos, x, y);
        }
    if (STRAY) for (f = 1; f <= NFN; f++) if (fn_nargs(f) > 1) for (x = 1; x <= NA; x++) ADD(9, f, 3, x, x);
    return no;
}
static int tsmall(unsigned long (*rnd)(void), int hi) { return (rnd() % 12 == 0) ? 1000 + (int)(rnd() % 2) : (int)(rnd() % (unsigned)(hi + 1)); }
static int drv_random(unsigned long (*rnd)(void), vop_t *op)
{
    unsigned long r = rnd() % 100;
    int a = 1 + (int)(rnd() % (unsigned)NA), s = 1 + (int)(rnd() % (unsigned)NA);
    if (ntab > MAXD - 4 || a_nblk > A_MAX - 8) return 0;
    if (r < 12) { op->k = 0; op->a[0] = a; op->a[1] = tsmall(rnd, MAXN); op->a[2] = op->a[1] >= 1000 ? ((rnd() & 1) ? 1 : 4) : 4; op->a[3] = FAULTS && rnd() % 5 == 0 ? 1 + (int)(rnd() & 1) : 0; }
    else if (r < 20) { op->k = 1; op->a[0] = a; op->a[1] = 1 + (int)(rnd() & 1); op->a[2] = 4; op->a[3] = FAULTS && rnd() % 5 == 0 ? 1 + (int)(rnd() & 1) : 0; }
    else if (r < 50) { op->k = 2; op->a[0] = a; op->a[1] = tsmall(rnd, MAXN + 1); op->a[2] = tsmall(rnd, MAXN + 1); op->a[3] = s; }
    else if (r < 60) { op->k = 3; op->a[0] = s; op->a[1] = a; }
    else if (r < 68) { op->k = 4; op->a[0] = a; }
    else if (r < 74) { op->k = 5; op->a[0] = a; op->a[1] = rnd() % 3 == 0; }
    else if (r < 90) { op->k = 6; op->a[0] = a; op->a[1] = tsmall(rnd, MAXN + 1); }
    else if (r < 95) { op->k = 7; op->a[0] = a; }
    else { op->k = 8; op->a[0] = a; }
    return 1;
}
/* ---- indexes beyond 2^31: views over a buffer of more than 2^31 one-byte elements (address space only,
 * never touched).  Offsets are logged as four 16-bit limbs; judged by spec/TraceArrBig.tla ---- */
#include <sys/mman.h>
static void limbs(FILE *o, const char *n, uint64_t v)
{
    fprintf(o, "\"%s\":[%u,%u,%u,%u]", n, (unsigned)(v >> 48) & 0xffff, (unsigned)(v >> 32) & 0xffff, (unsigned)(v >> 16) & 0xffff, (unsigned)v & 0xffff);
}
static sigjmp_buf bigjmp;
static void bigsig(int sgn) { siglongjmp(bigjmp, sgn); }
static int bigprobe(const char *path)
{
    static const uint64_t B = (uint64_t)1 << 31;
    const uint64_t nm = B + 4096;
    uint64_t idx[] = { 0, 1, B - 2, B - 1, B, B + 1, B + 4095, B + 4096, (uint64_t)1 << 32, ((uint64_t)1 << 32) + 5, nm - 1 };
    FILE *o = fopen(path, "w"); unsigned char *buf; cstl_array_t a, s; size_t k; long id = 0;
    if (!o) return 73;
    buf = mmap(NULL, nm, PROT_NONE, MAP_PRIVATE | MAP_ANONYMOUS | MAP_NORESERVE, -1, 0);
    if (buf == MAP_FAILED) { fprintf(o, "{\"id\":0,\"hdr\":true,\"skipped\":true}\n"); fclose(o); return 0; }
    signal(SIGABRT, bigsig); signal(SIGSEGV, bigsig);
    fprintf(o, "{\"id\":0,\"hdr\":true}\n");
    cstl_array_init(&a); cstl_array_init(&s);
    cstl_array_set(&a, buf, nm, 1);
    for (k = 0; k < sizeof idx / sizeof idx[0]; k++) {
        int v;
        for (v = 0; v < 2; v++) {
            /* v = 0: index the whole buffer; v = 1: index a 16-element slice that starts at idx - 3 */
            uint64_t off = 0, i = idx[k]; int sig; const unsigned char *p = NULL; cstl_array_t *obj = &a;
            if (v == 1) {
                if (idx[k] < 3 || idx[k] + 13 > nm) continue;
                off = idx[k] - 3; i = 3;
                cstl_array_slice(&a, off, off + 16, &s); obj = &s;
            }
            sig = sigsetjmp(bigjmp, 1);
            if (sig == 0) p = cstl_array_at(obj, i);
            fprintf(o, "{\"id\":%ld,\"op\":\"atbig\",\"out\":\"%s\",", ++id, sig == 0 ? "ok" : sig == SIGABRT ? "abort" : "segv");
            limbs(o, "off", off); fputc(',', o); limbs(o, "i", i); fputc(',', o);
            limbs(o, "len", v ? 16 : nm); fputc(',', o);
            limbs(o, "nm", nm); fputc(',', o); limbs(o, "ret", sig == 0 ? (uint64_t)(p - buf) : 0);
            fprintf(o, "}\n");
        }
    }
    /* indexes whose byte offset wraps around the address space back into (or just before) the view:
     * (a) a 16-element slice at a non-zero offset of the big one-byte buffer, (b) a 16-element array of 8-byte elements */
    {
        static uint64_t small8[16];
        cstl_array_t a8; int v;
        cstl_array_init(&a8); cstl_array_set(&a8, small8, 16, 8);
        cstl_array_slice(&a, 4096, 4096 + 16, &s);
        for (v = 0; v < 2; v++) {
            uint64_t wrap[] = { UINT64_MAX, UINT64_MAX - 1, UINT64_MAX - 4095, UINT64_MAX - 4090, (uint64_t)1 << 63, ((uint64_t)1 << 63) + 3,
                                (uint64_t)1 << 62, (uint64_t)1 << 61, ((uint64_t)1 << 61) + 2, UINT64_MAX / 8 + 1, UINT64_MAX / 8 + 4, 15, 16 };
            for (k = 0; k < sizeof wrap / sizeof wrap[0]; k++) {
                int sig; const unsigned char *p = NULL; cstl_array_t *obj = v ? &a8 : &s;
                const unsigned char *base = v ? (const unsigned char *)small8 : buf; uint64_t esz = v ? 8 : 1, off = v ? 0 : 4096;
                sig = sigsetjmp(bigjmp, 1);
                if (sig == 0) p = cstl_array_at(obj, wrap[k]);
                fprintf(o, "{\"id\":%ld,\"op\":\"atbig\",\"out\":\"%s\",", ++id, sig == 0 ? "ok" : sig == SIGABRT ? "abort" : "segv");
                limbs(o, "off", off); fputc(',', o); limbs(o, "i", wrap[k]); fputc(',', o);
                limbs(o, "len", 16); fputc(',', o);
                limbs(o, "nm", v ? 16 : nm); fputc(',', o); limbs(o, "ret", sig == 0 ? (uint64_t)(p - base) / esz : 0);
                fprintf(o, "}\n");
            }
        }
        cstl_array_reset(&a8);
    }
    cstl_array_reset(&s); cstl_array_reset(&a);
    fclose(o);
    munmap(buf, nm);
    printf("{\"bigprobe\":%ld}\n", id);
    return 0;
}
int main(int argc, char **argv)
{
    if (argc >= 3 && !strcmp(argv[1], "bigprobe")) return bigprobe(argv[2]);
    return e_main(argc, argv);
}
