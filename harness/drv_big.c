/*
 * drv_big.c — containers far larger than any closure or recorded random history can hold
 * (2^16 + a few thousand elements and more): sizes at which bit tricks on the element count,
 * fixed-size scratch arrays and height assumptions change behaviour.
 *
 * The observations are compact: one NDJSON record per scenario carrying the sequences the contract
 * talks about (priorities pushed and popped, values before and after a sort, keys in traversal
 * order, ...), not the link state.  They are judged by TLC with spec/TraceBig.tla.
 *
 * usage: drv_big <out> <seed> <what>...     what = heap:<n> | slist:<n> | dlist:<n> | rb:<n> | bst:<n> | map:<n> | hash:<n> | sort:<n> | vec:<n> | str:<n>
 */
#include <stdio.h>
#include <stdlib.h>
#include <string.h>
#include <stdint.h>
#include <stddef.h>
#include <signal.h>
#include <setjmp.h>
#include <unistd.h>
#include <sys/time.h>
#include "cstl/heap.h"
#include "cstl/slist.h"
#include "cstl/dlist.h"
#include "cstl/rbtree.h"
#include "cstl/map.h"
#include "cstl/hash.h"
#include "cstl/array.h"
#include "cstl/vector.h"
#include "cstl/string.h"
#include "cstl/memory.h"

static FILE *out;
static long rec_id;
static sigjmp_buf jb, jb2;
static volatile int use2;            /* an abort that is the expected outcome of a call is caught separately */
static void onsig(int s) { if (use2) { use2 = 0; siglongjmp(jb2, s); } siglongjmp(jb, s); }
/* a scenario that does not come back: judged on the CPU time of this process (a busy machine is not a hang) */
static void cpu_limit(int secs)
{
    struct itimerval it; memset(&it, 0, sizeof it); it.it_value.tv_sec = secs;
    setitimer(ITIMER_PROF, &it, NULL);
}
static unsigned long rs;
static unsigned long rnd(void) { rs = rs * 6364136223846793005UL + 1442695040888963407UL; return rs >> 33; }

static int priv_token, priv_ok = 1;
/* the sign is the contract; the magnitude is deliberately uninformative (see e_cmp3 in engine.h) */
static int cmp3(long a, long b)
{
    long d = a - b, m = d > 0 ? d : -d; int s = d > 0 ? 1 : -1;
    if (d == 0) return 0;
    switch ((unsigned long)(a + b) % 3) {
    case 0: return s;
    case 1: return s * (int)(1000 / m + 1);
    default: return s * (int)(m > 30000 ? 30000 : m);
    }
}
struct el {
    long v; long id; int cleared;
    struct cstl_heap_node hn; struct cstl_slist_node sn; struct cstl_dlist_node dn; struct cstl_rbtree_node rn; struct cstl_hash_node xn;
};
static struct el *pool; static long NP;
static int cmp(const void *a, const void *b, void *p)
{
    if (p != &priv_token) priv_ok = 0;
    return cmp3(((const struct el *)a)->v, ((const struct el *)b)->v);
}
static long id_of(const void *e)
{
    const struct el *x = e;
    if (!e) return 0;
    if (x < pool + 1 || x > pool + NP || ((const char *)x - (const char *)pool) % sizeof *pool) return -1;
    return (long)(x - pool);
}
static void put_list(const char *name, const long *a, long n)
{
    long i;
    fprintf(out, "\"%s\":[", name);
    for (i = 0; i < n; i++) fprintf(out, "%s%ld", i ? "," : "", a[i]);
    fputs("]", out);
}
static void begin(const char *op, long n) { fprintf(out, "{\"id\":%ld,\"op\":\"%s\",\"n\":%ld,", ++rec_id, op, n); }
static void end_ok(void) { fprintf(out, ",\"priv\":%s,\"out\":\"ok\"}\n", priv_ok ? "true" : "false"); fflush(out); }
/* after a crash, abort or hang inside the library nothing that follows can be trusted: report and stop */
static void end_sig(int sig)
{
    fprintf(out, "\"out\":\"%s\"}\n", (sig == SIGALRM || sig == SIGPROF) ? "hang" : sig == SIGABRT ? "abort" : "segv"); fflush(out);
    fclose(out);
    printf("{\"records\":%ld,\"stopped\":true}\n", rec_id);
    _exit(0);
}
static void fresh_pool(long n)
{
    long i;
    free(pool); NP = n; pool = calloc((size_t)n + 1, sizeof *pool);
    for (i = 1; i <= n; i++) pool[i].id = i;
}

/* ---- heap: fill to n, drain; shape checked at every size 2^k-1, 2^k, 2^k+1 on the way ---- */
static long count_slots(const struct cstl_bintree_node *bn, unsigned long idx, unsigned long size, int *okp)
{
    if (!bn) return 0;
    if (idx > size) *okp = 0;            /* a node in a slot beyond the size: not filled from the left */
    if ((bn->l && bn->l->p != bn) || (bn->r && bn->r->p != bn)) *okp = 0;
    return 1 + count_slots(bn->l, 2 * idx, size, okp) + count_slots(bn->r, 2 * idx + 1, size, okp);
}
static int heap_complete(const struct cstl_heap *h)
{
    int ok = 1; unsigned long size = cstl_heap_size(h);
    long c = count_slots(h->bt.root, 1, size, &ok);
    return ok && (unsigned long)c == size;
}
static int critical(unsigned long s) { unsigned long t = s + 1; return s >= 3 && ((s & (s - 1)) == 0 || (t & (t - 1)) == 0 || ((s - 1) & (s - 2)) == 0); }
static void do_heap(long n, int pattern)
{
    struct cstl_heap h; long i, *pushed, *popped, *ids, nshape = 0, shapes_ok = 1, sizes_ok = 1; int sig;
    fresh_pool(n);
    pushed = calloc((size_t)n, sizeof *pushed); popped = calloc((size_t)n, sizeof *popped); ids = calloc((size_t)n, sizeof *ids);
    for (i = 1; i <= n; i++) pool[i].v = pattern == 0 ? (long)(rnd() % 10) : pattern == 1 ? i % 10 : 9 - (i * 7) % 10;
    begin("heapdrain", n);
    fprintf(out, "\"pattern\":%d,", pattern);
    sig = sigsetjmp(jb, 1);
    if (sig == 0) {
        void *e0, *e1;
        cpu_limit(150);
        cstl_heap_init(&h, cmp, &priv_token, offsetof(struct el, hn));
        for (i = 1; i <= n; i++) {
            cstl_heap_push(&h, &pool[i]); pushed[i - 1] = pool[i].v;
            if (cstl_heap_size(&h) != (size_t)i) sizes_ok = 0;
            if (critical((unsigned long)i) || i == n) { nshape++; if (!heap_complete(&h)) shapes_ok = 0; }
        }
        for (i = 0; i < n; i++) {
            const struct el *g = cstl_heap_get(&h); struct el *p = cstl_heap_pop(&h);
            if (g != p) sizes_ok = 0;
            popped[i] = p ? p->v : -1; ids[i] = id_of(p);
            if (cstl_heap_size(&h) != (size_t)(n - 1 - i)) sizes_ok = 0;
            if (critical((unsigned long)(n - 1 - i))) { nshape++; if (!heap_complete(&h)) shapes_ok = 0; }
        }
        e0 = (void *)cstl_heap_get(&h); e1 = cstl_heap_pop(&h);
        cpu_limit(0);
        put_list("pushed", pushed, n); fputs(",", out); put_list("popped", popped, n); fputs(",", out); put_list("ids", ids, n);
        fprintf(out, ",\"shapes\":%ld,\"complete\":%s,\"sizes\":%s,\"emptynull\":%s", nshape, shapes_ok ? "true" : "false",
                sizes_ok ? "true" : "false", (!e0 && !e1 && cstl_heap_size(&h) == 0) ? "true" : "false");
        end_ok();
    } else { cpu_limit(0); end_sig(sig); }
    free(pushed); free(popped); free(ids);
}

/* ---- lists: push_back n, sort, walk, push_back one more, reverse, walk ---- */
static int visit_s(void *e, void *p) { long **w = p; *(*w)++ = id_of(e); return 0; }
static void do_list(long n, int dl)
{
    long i, *before, *after, *ids, *rev, *w; int sig;
    struct cstl_slist S; struct cstl_dlist D;
    fresh_pool(n + 1);
    before = calloc((size_t)n + 1, sizeof *before); after = calloc((size_t)n + 1, sizeof *after);
    ids = calloc((size_t)n + 1, sizeof *ids); rev = calloc((size_t)n + 1, sizeof *rev);
    for (i = 1; i <= n; i++) { pool[i].v = (long)(rnd() % 16); before[i - 1] = pool[i].v; }
    pool[n + 1].v = 99;                       /* pushed after the sort: must end up last */
    begin(dl ? "dlistsort" : "slistsort", n);
    sig = sigsetjmp(jb, 1);
    if (sig == 0) {
        long size1, size2, backid, frontid;
        cpu_limit(150);
        if (dl) { cstl_dlist_init(&D, offsetof(struct el, dn)); for (i = 1; i <= n; i++) cstl_dlist_push_back(&D, &pool[i]); cstl_dlist_sort(&D, cmp, &priv_token); }
        else { cstl_slist_init(&S, offsetof(struct el, sn)); for (i = 1; i <= n; i++) cstl_slist_push_back(&S, &pool[i]); cstl_slist_sort(&S, cmp, &priv_token); }
        size1 = (long)(dl ? cstl_dlist_size(&D) : cstl_slist_size(&S));
        w = ids;
        if (size1 <= n) { if (dl) cstl_dlist_foreach(&D, visit_s, &w, CSTL_DLIST_FOREACH_DIR_FWD); else cstl_slist_foreach(&S, visit_s, &w); }
        for (i = 0; i < w - ids && i < n; i++) after[i] = ids[i] > 0 ? pool[ids[i]].v : -1;
        fprintf(out, "\"size\":%ld,\"walked\":%ld,", size1, (long)(w - ids));
        put_list("before", before, n); fputs(",", out); put_list("after", after, w - ids <= n ? w - ids : n); fputs(",", out);
        put_list("ids", ids, w - ids <= n ? w - ids : n);
        /* the tail is the true last element: push_back, then reverse and walk again */
        if (dl) cstl_dlist_push_back(&D, &pool[n + 1]); else cstl_slist_push_back(&S, &pool[n + 1]);
        backid = id_of(dl ? cstl_dlist_back(&D) : cstl_slist_back(&S));
        if (dl) cstl_dlist_reverse(&D); else cstl_slist_reverse(&S);
        frontid = id_of(dl ? cstl_dlist_front(&D) : cstl_slist_front(&S));
        size2 = (long)(dl ? cstl_dlist_size(&D) : cstl_slist_size(&S));
        w = rev;
        if (size2 <= n + 1) { if (dl) cstl_dlist_foreach(&D, visit_s, &w, CSTL_DLIST_FOREACH_DIR_FWD); else cstl_slist_foreach(&S, visit_s, &w); }
        cpu_limit(0);
        fprintf(out, ",\"size2\":%ld,\"backid\":%ld,\"frontid\":%ld,", size2, backid, frontid);
        put_list("rev", rev + 1, (w - rev) > 0 ? (w - rev) - 1 : 0);      /* without the extra element, now first */
        end_ok();
    } else { cpu_limit(0); end_sig(sig); }
    free(before); free(after); free(ids); free(rev);
}

/* ---- trees: n ascending (the worst case for height and for recursion depth), erase every other one, traverse, clear ---- */
static long nvis, ordered, lastv;
static int visit_t(const void *e, cstl_bintree_visit_order_t o, void *p)
{
    (void)p;
    if (o == CSTL_BINTREE_VISIT_ORDER_MID || o == CSTL_BINTREE_VISIT_ORDER_LEAF) {
        long v = ((const struct el *)e)->v;
        if (nvis && v < lastv) ordered = 0;
        lastv = v; nvis++;
    }
    return 0;
}
static long nclr, clr_once;
static void clear_t(void *e, void *p)
{
    struct el *x = e; (void)p;
    if (id_of(e) <= 0 || x->cleared) clr_once = 0; else x->cleared = 1;
    nclr++;
    memset(&x->rn, 0xA5, sizeof x->rn);         /* the element is the callee's now */
}
static void do_tree(long n, int rb)
{
    struct cstl_rbtree T; long i; int sig;
    fresh_pool(n);
    for (i = 1; i <= n; i++) pool[i].v = i;
    begin(rb ? "rbbig" : "bstbig", n);
    sig = sigsetjmp(jb, 1);
    if (sig == 0) {
        size_t hmin = 0, hmax = 0, hmin2 = 0, hmax2 = 0; long size1, size2, found = 0, erased = 0, visited1, ordered1, cleared1, once1, size1b;
        cpu_limit(150);
        if (rb) cstl_rbtree_init(&T, cmp, &priv_token, offsetof(struct el, rn));
        else { memset(&T, 0, sizeof T); cstl_bintree_init(&T.t, cmp, &priv_token, offsetof(struct el, rn.n)); }
        for (i = 1; i <= n; i++) { if (rb) cstl_rbtree_insert(&T, &pool[i], NULL); else cstl_bintree_insert(&T.t, &pool[i], NULL); }
        size1 = (long)(rb ? cstl_rbtree_size(&T) : cstl_bintree_size(&T.t));
        if (rb) cstl_rbtree_height(&T, &hmin, &hmax); else cstl_bintree_height(&T.t, &hmin, &hmax);
        for (i = 1; i <= n; i += 97) { struct el pr; memset(&pr, 0, sizeof pr); pr.v = i; if ((rb ? cstl_rbtree_find(&T, &pr, NULL) : cstl_bintree_find(&T.t, &pr, NULL)) == &pool[i]) found++; }
        /* walk and clear the tree as the ascending inserts left it (as lopsided as it gets) */
        nvis = 0; ordered = 1;
        if (rb) cstl_rbtree_foreach(&T, visit_t, NULL, CSTL_BINTREE_FOREACH_DIR_FWD); else cstl_bintree_foreach(&T.t, visit_t, NULL, CSTL_BINTREE_FOREACH_DIR_FWD);
        visited1 = nvis; ordered1 = ordered;
        nclr = 0; clr_once = 1;
        if (rb) cstl_rbtree_clear(&T, clear_t, NULL); else cstl_bintree_clear(&T.t, clear_t, NULL);
        cleared1 = nclr; once1 = clr_once; size1b = (long)(rb ? cstl_rbtree_size(&T) : cstl_bintree_size(&T.t));
        /* reuse: fill again, erase every other key, walk, clear */
        for (i = 1; i <= n; i++) { pool[i].cleared = 0; memset(&pool[i].rn, 0, sizeof pool[i].rn); if (rb) cstl_rbtree_insert(&T, &pool[i], NULL); else cstl_bintree_insert(&T.t, &pool[i], NULL); }
        for (i = 2; i <= n; i += 2) { struct el pr; memset(&pr, 0, sizeof pr); pr.v = i; if ((rb ? cstl_rbtree_erase(&T, &pr) : cstl_bintree_erase(&T.t, &pr)) == &pool[i]) { erased++; pool[i].cleared = 1; } }
        size2 = (long)(rb ? cstl_rbtree_size(&T) : cstl_bintree_size(&T.t));
        if (rb) cstl_rbtree_height(&T, &hmin2, &hmax2); else cstl_bintree_height(&T.t, &hmin2, &hmax2);
        nvis = 0; ordered = 1;
        if (rb) cstl_rbtree_foreach(&T, visit_t, NULL, CSTL_BINTREE_FOREACH_DIR_FWD); else cstl_bintree_foreach(&T.t, visit_t, NULL, CSTL_BINTREE_FOREACH_DIR_FWD);
        nclr = 0; clr_once = 1;
        if (rb) cstl_rbtree_clear(&T, clear_t, NULL); else cstl_bintree_clear(&T.t, clear_t, NULL);
        cpu_limit(0);
        fprintf(out, "\"size\":%ld,\"hmax\":%ld,\"found\":%ld,\"probes\":%ld,\"visited1\":%ld,\"ordered1\":%s,\"cleared1\":%ld,\"once1\":%s,\"size1b\":%ld,"
                "\"erased\":%ld,\"size2\":%ld,\"hmax2\":%ld,\"visited\":%ld,\"ordered\":%s,\"cleared\":%ld,\"once\":%s,\"size3\":%ld",
                size1, (long)hmax, found, (n + 96) / 97, visited1, ordered1 ? "true" : "false", cleared1, once1 ? "true" : "false", size1b,
                erased, size2, (long)hmax2, nvis, ordered ? "true" : "false", nclr, clr_once ? "true" : "false",
                (long)(rb ? cstl_rbtree_size(&T) : cstl_bintree_size(&T.t)));
        end_ok();
    } else { cpu_limit(0); end_sig(sig); }
}

/* ---- map: n ascending keys, find, erase a few, clear with a callback, reuse ---- */
static long *mkeys; static unsigned char *mseen; static long mn;
static int kcmp(const void *a, const void *b, void *p) { if (p != &priv_token) priv_ok = 0; return cmp3(*(const long *)a, *(const long *)b); }
static void clear_m(void *ip, void *p)
{
    cstl_map_iterator_t *i = ip; const long *k = i->key; (void)p;
    if (k < mkeys || k >= mkeys + mn || mseen[k - mkeys] || i->val != (void *)&mkeys[k - mkeys]) clr_once = 0; else mseen[k - mkeys] = 1;
    nclr++;
}
static void do_map(long n)
{
    cstl_map_t M; long i; int sig;
    mn = n; mkeys = calloc((size_t)n, sizeof *mkeys); mseen = calloc((size_t)n, 1);
    for (i = 0; i < n; i++) mkeys[i] = i + 1;
    begin("mapbig", n);
    sig = sigsetjmp(jb, 1);
    if (sig == 0) {
        long ins0 = 0, dup1 = 0, found = 0, probes = 0, erased = 0, size1, size2, size3, size4, cleared1, once1; cstl_map_iterator_t it;
        cpu_limit(150);
        cstl_map_init(&M, kcmp, &priv_token);
        for (i = 0; i < n; i++) if (cstl_map_insert(&M, &mkeys[i], &mkeys[i], NULL) == 0) ins0++;
        for (i = 0; i < n; i += 1009) if (cstl_map_insert(&M, &mkeys[i], NULL, &it) == 1 && it.val == (void *)&mkeys[i]) dup1++;
        size1 = (long)cstl_map_size(&M);
        for (i = 0; i < n; i += 97) { probes++; cstl_map_find(&M, &mkeys[i], &it); if (it.key == &mkeys[i] && it.val == (void *)&mkeys[i]) found++; }
        /* clear the tree as the inserts left it (ascending keys: as lopsided as the balancing rules allow) */
        nclr = 0; clr_once = 1;
        cstl_map_clear(&M, clear_m, NULL);
        size2 = (long)cstl_map_size(&M);                     /* 0 */
        cleared1 = nclr; once1 = clr_once;
        /* reuse: fill again, erase some entries, clear again - the erased ones must not come back */
        memset(mseen, 0, (size_t)n);
        for (i = 0; i < n; i++) cstl_map_insert(&M, &mkeys[i], &mkeys[i], NULL);
        for (i = 1; i < n; i += 1013) { if (cstl_map_erase(&M, &mkeys[i], &it) == 0 && it.key == &mkeys[i]) { erased++; mseen[i] = 1; } }
        size3 = (long)cstl_map_size(&M);
        nclr = 0; clr_once = 1;
        cstl_map_clear(&M, clear_m, NULL);
        size4 = (long)cstl_map_size(&M);
        cpu_limit(0);
        fprintf(out, "\"ins0\":%ld,\"dup1\":%ld,\"dups\":%ld,\"size\":%ld,\"found\":%ld,\"probes\":%ld,\"cleared1\":%ld,\"once1\":%s,\"size2\":%ld,"
                "\"erased\":%ld,\"size3\":%ld,\"cleared\":%ld,\"once\":%s,\"size4\":%ld",
                ins0, dup1, (n + 1008) / 1009, size1, found, probes, cleared1, once1 ? "true" : "false", size2, erased, size3, nclr, clr_once ? "true" : "false", size4);
        end_ok();
    } else { cpu_limit(0); end_sig(sig); }
    free(mkeys); free(mseen);
}

/* ---- hash table: n distinct keys, the table doubled whenever the load passes 1 (so almost every insert runs
 * while an incremental rehash is pending), find all, walk, erase every other element, shrink, walk, clear, reuse.
 * With distinct keys and the identity hash every bucket holds at most one element, so the number of hash calls an
 * operation makes bounds the buckets it relocated. ---- */
static unsigned long hcalls, hbad;
static size_t hid(size_t k, size_t m) { size_t r = k % m; hcalls++; if (m == 0) hbad++; return r; }
static size_t hid2(size_t k, size_t m) { size_t r = (k * 7 + 3) % m; hcalls++; return r; }
static unsigned char *hseen; static long hvis, hvis_once;
static int hvisit(void *e, void *p) { long id = id_of(e); (void)p; if (id <= 0 || hseen[id]) hvis_once = 0; else hseen[id] = 1; hvis++; return 0; }
static void hclear(void *e, void *p) { struct el *x = e; (void)p; if (id_of(e) <= 0 || x->cleared) clr_once = 0; else x->cleared = 1; nclr++; memset(&x->xn, 0xA5, sizeof x->xn); }
static void do_hash(long n)
{
    struct cstl_hash H; long i; int sig;
    fresh_pool(n);
    hseen = calloc((size_t)n + 1, 1);
    for (i = 1; i <= n; i++) pool[i].v = i * 3;            /* distinct keys */
    begin("hashbig", n);
    sig = sigsetjmp(jb, 1);
    if (sig == 0) {
        long found = 0, notfound = 0, resizes = 0, maxcalls = 0, overdue = 0, size1, vis1, once1, erased = 0, size2, vis2, once2, gone_found = 0, size3, size4;
        long pend_ops = 0, pend_budget = 0; unsigned long c0;
        cpu_limit(150);
        cstl_hash_init(&H, offsetof(struct el, xn));
        cstl_hash_resize(&H, 16, hid);
        for (i = 1; i <= n; i++) {
            if ((size_t)i > H.bucket.count && H.bucket.rh.hash == NULL) {       /* grow; the rehash is worked off by the operations that follow */
                pend_budget = (long)H.bucket.count; pend_ops = 0;
                cstl_hash_resize(&H, H.bucket.count * 2, (resizes++ % 3 == 2) ? hid2 : NULL);
            }
            c0 = hcalls;
            cstl_hash_insert(&H, (size_t)pool[i].v, &pool[i]);
            if ((long)(hcalls - c0) > maxcalls) maxcalls = (long)(hcalls - c0);
            if (pend_budget) { pend_ops++; if (H.bucket.rh.hash == NULL) pend_budget = 0; else if (pend_ops > pend_budget) overdue++; }
        }
        size1 = (long)cstl_hash_size(&H);
        for (i = 1; i <= n; i++) {
            c0 = hcalls;
            if (cstl_hash_find(&H, (size_t)pool[i].v, NULL, NULL) == &pool[i]) found++;
            if ((long)(hcalls - c0) > maxcalls) maxcalls = (long)(hcalls - c0);
        }
        if (cstl_hash_find(&H, 1, NULL, NULL) == NULL && cstl_hash_find(&H, (size_t)n * 3 + 1, NULL, NULL) == NULL) notfound = 1;
        hvis = 0; hvis_once = 1; cstl_hash_foreach(&H, hvisit, NULL); vis1 = hvis; once1 = hvis_once;
        for (i = 2; i <= n; i += 2) { cstl_hash_erase(&H, &pool[i]); erased++; memset(&pool[i].xn, 0xA5, sizeof pool[i].xn); }
        size2 = (long)cstl_hash_size(&H);
        cstl_hash_resize(&H, H.bucket.count / 8 + 1, NULL);                    /* shrink, pending */
        for (i = 2; i <= n; i += 2) if (cstl_hash_find(&H, (size_t)pool[i].v, NULL, NULL) != NULL) gone_found++;
        memset(hseen, 0, (size_t)n + 1);
        hvis = 0; hvis_once = 1; cstl_hash_foreach(&H, hvisit, NULL); vis2 = hvis; once2 = hvis_once;
        for (i = 1; i <= n; i += 2) if (!hseen[i]) once2 = 0;
        cstl_hash_shrink_to_fit(&H);
        nclr = 0; clr_once = 1;
        for (i = 2; i <= n; i += 2) pool[i].cleared = 1;                        /* erased: must not be handed to clear */
        cstl_hash_clear(&H, hclear);
        size3 = (long)cstl_hash_size(&H);
        cstl_hash_resize(&H, 8, hid);
        for (i = 1; i <= 5; i++) { pool[i].cleared = 0; cstl_hash_insert(&H, (size_t)pool[i].v, &pool[i]); }
        size4 = (long)cstl_hash_size(&H);
        cstl_hash_clear(&H, NULL);
        cpu_limit(0);
        fprintf(out, "\"size\":%ld,\"found\":%ld,\"absent\":%s,\"resizes\":%ld,\"maxcalls\":%ld,\"overdue\":%ld,\"visited1\":%ld,\"once1\":%s,"
                "\"erased\":%ld,\"size2\":%ld,\"gonefound\":%ld,\"visited\":%ld,\"once\":%s,\"cleared\":%ld,\"clronce\":%s,\"size3\":%ld,\"size4\":%ld,\"hbad\":%lu",
                size1, found, notfound ? "true" : "false", resizes, maxcalls, overdue, vis1, once1 ? "true" : "false",
                erased, size2, gone_found, vis2, once2 ? "true" : "false", nclr, clr_once ? "true" : "false", size3, size4, hbad);
        end_ok();
    } else { cpu_limit(0); end_sig(sig); }
    free(hseen);
}

/* ---- sorting large arrays: input shapes on which partitioning degenerates (organ pipe, rotated blocks of three,
 * sorted, reversed, few distinct keys) for every algorithm selector, raw array and vector; records of (key, id) ---- */
struct rec { int key; int id; };
static int rcmp(const void *a, const void *b, void *p) { if (p != &priv_token) priv_ok = 0; return cmp3(((const struct rec *)a)->key, ((const struct rec *)b)->key); }
static void do_sort1(long n, int pattern, int algo, int via)
{
    enum { G = 4096 };
    unsigned char *block; struct rec *arr, scratch_guard; long i, *before, *ids; int sig, guards = 1;
    before = calloc((size_t)n, sizeof *before); ids = calloc((size_t)n, sizeof *ids);
    block = malloc(2 * G + ((size_t)n + 1) * sizeof *arr);
    memset(block, 0x5C, 2 * G + ((size_t)n + 1) * sizeof *arr);
    arr = (struct rec *)(block + G);
    (void)scratch_guard;
    for (i = 0; i < n; i++) {
        long k;
        switch (pattern) {
        case 0: k = i < n / 2 ? i : n - 1 - i; break;                       /* organ pipe */
        case 1: k = (i / 3) * 3 + (i % 3 == 0 ? 2 : i % 3 - 1); break;      /* 2 0 1 5 3 4 ... */
        case 2: k = i; break;                                               /* sorted */
        case 3: k = n - i; break;                                           /* reversed */
        case 4: k = (long)(rnd() % 7); break;                               /* few distinct keys */
        default: k = (long)(rnd() % (unsigned long)(2 * n + 1)); break;     /* random */
        }
        arr[i].key = (int)k; arr[i].id = (int)i + 1; before[i] = k;
    }
    begin("sortbig", n);
    fprintf(out, "\"pattern\":%d,\"algo\":%d,\"via\":%d,", pattern, algo, via);
    sig = sigsetjmp(jb, 1);
    if (sig == 0) {
        cpu_limit(150);
        if (via == 0) cstl_raw_array_sort(arr, (size_t)n, sizeof *arr, rcmp, &priv_token, cstl_swap, &arr[n], (cstl_sort_algorithm_t)algo);
        else {
            struct cstl_vector v;
            cstl_vector_init(&v, sizeof *arr); cstl_vector_resize(&v, (size_t)n);
            memcpy(cstl_vector_data(&v), arr, (size_t)n * sizeof *arr);
            if (algo == (int)CSTL_SORT_ALGORITHM_DEFAULT) cstl_vector_sort(&v, rcmp, &priv_token); else __cstl_vector_sort(&v, rcmp, &priv_token, cstl_swap, (cstl_sort_algorithm_t)algo);
            memcpy(arr, cstl_vector_data(&v), (size_t)n * sizeof *arr);
            cstl_vector_clear(&v);
        }
        cpu_limit(0);
        for (i = 0; i < G; i++) if (block[i] != 0x5C || block[G + ((size_t)n + 1) * sizeof *arr + (size_t)i] != 0x5C) guards = 0;
        for (i = 0; i < n; i++) ids[i] = arr[i].id;
        put_list("before", before, n); fputs(",", out); put_list("ids", ids, n);
        fprintf(out, ",\"guards\":%s", guards ? "true" : "false");
        end_ok();
    } else { cpu_limit(0); end_sig(sig); }
    free(before); free(ids); free(block);
}
static void do_sort(long n)
{
    static const int algos[] = { 0, 1, 2, 3, 12345 };      /* QUICK, QUICK_R, QUICK_M, HEAP, out of range (= default) */
    int a, p;
    for (a = 0; a < 5; a++) for (p = 0; p < 6; p++) {
        int quad = (algos[a] == 0 && (p == 0 || p == 2 || p == 3 || p == 4)) || (algos[a] == 1 && p == 4);    /* quadratic by design: first-element / any pivot */
        long m = quad ? 3000 : (algos[a] == 0 && p == 1) ? 3000 : n;
        do_sort1(m, p, algos[a], (a + p) & 1);
    }
}

/* ---- vector of 12-byte elements with constructor and destructor: grow to n, reserve past it, shrink, sort, clear ---- */
struct v12 { int tag; int pad[2]; };
static long nctor, ndtor, xbad;
static void vctor(void *e, void *p) { struct v12 *x = e; if (p != &priv_token) priv_ok = 0; x->tag = -1; x->pad[0] = 7; x->pad[1] = 9; nctor++; }
static void vdtor(void *e, void *p) { struct v12 *x = e; if (p != &priv_token) priv_ok = 0; if (x->pad[0] != 7 || x->pad[1] != 9) xbad++; x->pad[0] = 0; ndtor++; }
static int vcmp(const void *a, const void *b, void *p) { if (p != &priv_token) priv_ok = 0; return cmp3(((const struct v12 *)a)->tag, ((const struct v12 *)b)->tag); }
static int tags_ok(struct cstl_vector *v, long n) { long i; for (i = 0; i < n; i++) if (((struct v12 *)cstl_vector_at(v, (size_t)i))->tag != (int)(i * 7 % 1000003)) return 0; return 1; }
static void do_vec(long n)
{
    struct cstl_vector v; long i; int sig;
    begin("vecbig", n);
    sig = sigsetjmp(jb, 1);
    if (sig == 0) {
        long c1, cap1, kept1, cap2, kept2, d2, size2, cap3, kept3, sorted = 1, d3, size4, atend, capE, capF, reuse = 1;
        cpu_limit(150);
        nctor = ndtor = xbad = 0;
        cstl_vector_init_complex(&v, sizeof(struct v12), vctor, vdtor, &priv_token);
        for (i = 1; i <= n; i = i * 3 / 2 + 1) cstl_vector_resize(&v, (size_t)i);            /* grow in steps */
        cstl_vector_resize(&v, (size_t)n);
        c1 = nctor; cap1 = (long)cstl_vector_capacity(&v);
        for (i = 0; i < n; i++) ((struct v12 *)cstl_vector_at(&v, (size_t)i))->tag = (int)(i * 7 % 1000003);
        cstl_vector_reserve(&v, (size_t)(3 * n));
        kept1 = tags_ok(&v, n); cap2 = (long)cstl_vector_capacity(&v);
        cstl_vector_resize(&v, (size_t)(n / 2));
        d2 = ndtor; size2 = (long)cstl_vector_size(&v); kept2 = tags_ok(&v, n / 2);
        cstl_vector_shrink_to_fit(&v);
        cap3 = (long)cstl_vector_capacity(&v); kept3 = tags_ok(&v, n / 2);
        cstl_vector_sort(&v, vcmp, &priv_token);
        for (i = 1; i < n / 2; i++) if (((struct v12 *)cstl_vector_at(&v, (size_t)i - 1))->tag > ((struct v12 *)cstl_vector_at(&v, (size_t)i))->tag) sorted = 0;
        { int s2 = sigsetjmp(jb2, 1); atend = 0; if (s2 == 0) { use2 = 1; (void)cstl_vector_at(&v, (size_t)(n / 2)); use2 = 0; } else atend = s2 == SIGABRT; }
        /* emptied but still holding its large storage: a reserve the allocator cannot satisfy changes nothing, and the
         * vector goes on working in the storage it has */
        cstl_vector_resize(&v, 0);
        capE = (long)cstl_vector_capacity(&v);
        cstl_vector_reserve(&v, (size_t)-1 / sizeof(struct v12) / 2);
        capF = (long)cstl_vector_capacity(&v);
        cstl_vector_resize(&v, 8);
        for (i = 0; i < 8; i++) ((struct v12 *)cstl_vector_at(&v, (size_t)i))->tag = (int)(i * 7 % 1000003);
        if (!tags_ok(&v, 8) || cstl_vector_data(&v) == NULL) reuse = 0;
        cstl_vector_clear(&v);
        d3 = ndtor; size4 = (long)cstl_vector_size(&v);
        cpu_limit(0);
        fprintf(out, "\"capE\":%ld,\"capF\":%ld,\"reuse\":%s,", capE, capF, reuse ? "true" : "false");
        fprintf(out, "\"ctors\":%ld,\"cap1\":%ld,\"kept1\":%s,\"cap2\":%ld,\"dtors2\":%ld,\"size2\":%ld,\"kept2\":%s,\"cap3\":%ld,\"kept3\":%s,"
                "\"sorted\":%s,\"atend\":%s,\"dtors\":%ld,\"size4\":%ld,\"xbad\":%ld",
                c1, cap1, kept1 ? "true" : "false", cap2, d2, size2, kept2 ? "true" : "false", cap3, kept3 ? "true" : "false",
                sorted ? "true" : "false", atend ? "true" : "false", d3, size4, xbad);
        end_ok();
    } else { cpu_limit(0); end_sig(sig); }
}

/* ---- string: n characters appended in pieces, text inserted in the middle, the first half erased, substring, find ---- */
static void do_str(long n)
{
    cstl_string_t s, sub; long i; int sig;
    begin("strbig", n);
    sig = sigsetjmp(jb, 1);
    if (sig == 0) {
        long size1, size2, size3, term = 1, content = 1, f1, f2, f3, subsize, cmp0, cap;
        const char *p;
        cpu_limit(150);
        cstl_string_init(&s); cstl_string_init(&sub);
        for (i = 0; i < n; i += 1000) cstl_string_append_ch(&s, (size_t)(n - i < 1000 ? n - i : 1000), (char)('a' + (i / 1000) % 3));
        size1 = (long)cstl_string_size(&s);
        cstl_string_insert_str(&s, (size_t)(n / 2), "XYZ");
        size2 = (long)cstl_string_size(&s);
        p = cstl_string_str(&s);
        if (p[size2] != 0) term = 0;
        for (i = 0; i < size2; i++) {
            char want = i < n / 2 ? (char)('a' + (i / 1000) % 3) : i < n / 2 + 3 ? "XYZ"[i - n / 2] : (char)('a' + ((i - 3) / 1000) % 3);
            if (p[i] != want) { content = 0; break; }
        }
        f1 = (long)cstl_string_find_ch(&s, 'X', 0); f2 = (long)cstl_string_find_str(&s, "YZ", 0); f3 = (long)cstl_string_find_ch(&s, 'Q', 0);
        cstl_string_erase(&s, 0, (size_t)(n / 2));
        size3 = (long)cstl_string_size(&s);
        p = cstl_string_str(&s);
        if (p[size3] != 0 || p[0] != 'X' || p[1] != 'Y' || p[2] != 'Z') content = 0;
        cstl_string_substr(&s, 1, (size_t)-1, &sub);
        subsize = (long)cstl_string_size(&sub);
        cmp0 = cstl_string_compare_str(&sub, cstl_string_str(&s) + 1);
        cap = (long)cstl_string_capacity(&s);
        cstl_string_clear(&s); cstl_string_clear(&sub);
        cpu_limit(0);
        fprintf(out, "\"size1\":%ld,\"size2\":%ld,\"term\":%s,\"content\":%s,\"f1\":%ld,\"f2\":%ld,\"f3\":%ld,\"size3\":%ld,\"subsize\":%ld,\"cmp0\":%ld,\"cap\":%ld",
                size1, size2, term ? "true" : "false", content ? "true" : "false", f1, f2, f3, size3, subsize, cmp0, cap);
        end_ok();
    } else { cpu_limit(0); end_sig(sig); }
}

/* ---- 70 000 references to one allocation: shared pointers (plus a weak one), then array views of one buffer ---- */
static long pclr;
static void pclear(void *m, void *p) { (void)m; (void)p; pclr++; }
static void do_refs(long n)
{
    cstl_shared_ptr_t *sp; cstl_weak_ptr_t w; cstl_shared_ptr_t t; long i; int sig;
    begin("refsbig", n);
    sig = sigsetjmp(jb, 1);
    if (sig == 0) {
        long sameget = 1, lockmid, uniqmid, clrmid, locklast, uniqlast, clrlast, lockend, clrend, lockrounds = 0, deadrounds = 0; void *m;
        cpu_limit(150);
        pclr = 0;
        sp = calloc((size_t)n, sizeof *sp);
        for (i = 0; i < n; i++) cstl_shared_ptr_init(&sp[i]);
        cstl_weak_ptr_init(&w); cstl_shared_ptr_init(&t);
        cstl_shared_ptr_alloc(&sp[0], 64, pclear);
        m = cstl_shared_ptr_get(&sp[0]);
        cstl_weak_ptr_from(&w, &sp[0]);
        for (i = 1; i < n; i++) { cstl_shared_ptr_share(&sp[0], &sp[i]); if (cstl_shared_ptr_get(&sp[i]) != m) sameget = 0; }
        /* n owners: a lock must find an owner, nobody is unique, nothing cleared */
        cstl_weak_ptr_lock(&w, &t); lockmid = cstl_shared_ptr_get(&t) == m; cstl_shared_ptr_reset(&t);
        uniqmid = cstl_shared_ptr_unique(&sp[0]);
        /* a long life: n more locks of the same allocation, each yielding an owner that is let go again */
        for (i = 0; i < n; i++) { cstl_weak_ptr_lock(&w, &t); if (cstl_shared_ptr_get(&t) == m) lockrounds++; cstl_shared_ptr_reset(&t); }

        cstl_shared_ptr_reset(&sp[n - 1]);                         /* one of n owners goes: still live */
        clrmid = pclr; if (cstl_shared_ptr_get(&sp[0]) != m) sameget = 0;
        for (i = 1; i < n - 1; i++) cstl_shared_ptr_reset(&sp[i]);
        cstl_weak_ptr_lock(&w, &t); locklast = cstl_shared_ptr_get(&t) == m; cstl_shared_ptr_reset(&t);
        uniqlast = cstl_shared_ptr_unique(&sp[0]);                  /* one owner + one weak reference: not unique */
        clrlast = pclr;
        cstl_shared_ptr_reset(&sp[0]);
        clrend = pclr;
        cstl_weak_ptr_lock(&w, &t); lockend = cstl_shared_ptr_get(&t) != NULL; cstl_shared_ptr_reset(&t);
        /* ... and n locks that must fail, the owners being gone */
        for (i = 0; i < n; i++) { cstl_weak_ptr_lock(&w, &t); if (cstl_shared_ptr_get(&t) == NULL && cstl_shared_ptr_unique(&t)) deadrounds++; cstl_shared_ptr_reset(&t); }
        cstl_weak_ptr_reset(&w);
        free(sp);
        cpu_limit(0);
        fprintf(out, "\"sameget\":%s,\"lockmid\":%ld,\"uniqmid\":%ld,\"clrmid\":%ld,\"locklast\":%ld,\"uniqlast\":%ld,\"clrlast\":%ld,\"clrend\":%ld,\"lockend\":%ld,\"lockrounds\":%ld,\"deadrounds\":%ld,\"clrfinal\":%ld",
                sameget ? "true" : "false", lockmid, uniqmid, clrmid, locklast, uniqlast, clrlast, clrend, lockend, lockrounds, deadrounds, pclr);
        end_ok();
    } else { cpu_limit(0); end_sig(sig); }
}
static void do_views(long n)
{
    cstl_array_t *a; long i; int sig; static int ext[64];
    begin("viewsbig", n);
    sig = sigsetjmp(jb, 1);
    if (sig == 0) {
        void *b = (void *)&b; long early, size0, inside = 1, late, sizeend;
        cpu_limit(150);
        a = calloc((size_t)n + 1, sizeof *a);
        for (i = 0; i <= n; i++) cstl_array_init(&a[i]);
        cstl_array_set(&a[0], ext, 64, sizeof ext[0]);
        for (i = 1; i <= n; i++) cstl_array_slice(&a[0], (size_t)(i % 32), (size_t)(i % 32) + 8, &a[i]);
        cstl_array_release(&a[0], &b); early = b != NULL;               /* n other users: must refuse and change nothing */
        size0 = (long)cstl_array_size(&a[0]);
        for (i = 1; i <= n; i += 997) { int *q = cstl_array_at(&a[i], 7); if (q < ext || q >= ext + 64) inside = 0; }
        for (i = 1; i <= n; i++) cstl_array_reset(&a[i]);
        b = NULL; cstl_array_release(&a[0], &b); late = b == (void *)ext;   /* sole user now: the buffer comes back */
        sizeend = (long)cstl_array_size(&a[0]);
        free(a);
        cpu_limit(0);
        fprintf(out, "\"early\":%ld,\"size0\":%ld,\"inside\":%s,\"late\":%ld,\"sizeend\":%ld", early, size0, inside ? "true" : "false", late, sizeend);
        end_ok();
    } else { cpu_limit(0); end_sig(sig); }
}

/* ---- hash table with n elements under ONE key (a chain as long as the table is large) plus a thousand ordinary ones ---- */
static void do_hashdup(long n)
{
    struct cstl_hash H; long i; int sig;
    fresh_pool(n + 1000);
    hseen = calloc((size_t)n + 1001, 1);
    for (i = 1; i <= n; i++) pool[i].v = 5;
    for (i = n + 1; i <= n + 1000; i++) pool[i].v = 1000 + i;
    begin("hashdup", n);
    sig = sigsetjmp(jb, 1);
    if (sig == 0) {
        long size1, vis1, once1, found5, foundlast, size2, vis2, once2, nerased = 0;
        cpu_limit(150);
        cstl_hash_init(&H, offsetof(struct el, xn));
        cstl_hash_resize(&H, 64, hid);
        for (i = 1; i <= n + 1000; i++) cstl_hash_insert(&H, (size_t)pool[i].v, &pool[i]);
        size1 = (long)cstl_hash_size(&H);
        cstl_hash_resize(&H, 257, hid2); cstl_hash_rehash(&H);            /* the long chain is relocated */
        cstl_hash_resize(&H, 31, hid);                                     /* and again, incrementally, while shrinking */
        found5 = id_of(cstl_hash_find(&H, 5, NULL, NULL)) >= 1;
        foundlast = cstl_hash_find(&H, (size_t)pool[n + 1000].v, NULL, NULL) == &pool[n + 1000];
        hvis = 0; hvis_once = 1; cstl_hash_foreach(&H, hvisit, NULL); vis1 = hvis; once1 = hvis_once;
        for (i = 1; i <= n; i += 2 * (n / 200) + 1) { cstl_hash_erase(&H, &pool[i]); nerased++; }      /* each erase walks the chain */
        size2 = (long)cstl_hash_size(&H);
        cstl_hash_shrink_to_fit(&H);
        memset(hseen, 0, (size_t)n + 1001);
        hvis = 0; hvis_once = 1; cstl_hash_foreach_const(&H, (cstl_const_visit_func_t *)hvisit, NULL); vis2 = hvis; once2 = hvis_once;
        cstl_hash_clear(&H, NULL);
        cpu_limit(0);
        fprintf(out, "\"size\":%ld,\"found5\":%ld,\"foundlast\":%ld,\"visited1\":%ld,\"once1\":%s,\"erased\":%ld,\"size2\":%ld,\"visited\":%ld,\"once\":%s",
                size1, found5, foundlast, vis1, once1 ? "true" : "false", nerased, size2, vis2, once2 ? "true" : "false");
        end_ok();
    } else { cpu_limit(0); end_sig(sig); }
    free(hseen);
}

/* ---- a long life of one small table: n resizes (4 <-> 5 buckets, each worked off by keyed operations), then an element
 * lands in a bucket that was empty all along, the table shrinks, and everything must still be found, walked and cleared ---- */
static void do_hashlife(long n)
{
    struct cstl_hash H; long i; int sig;
    fresh_pool(8);
    hseen = calloc(16, 1);
    pool[1].v = 0; pool[2].v = 1; pool[3].v = 3; pool[4].v = 2; pool[5].v = 7;
    begin("hashlife", n);
    sig = sigsetjmp(jb, 1);
    if (sig == 0) {
        long found = 0, vis, once, size, cleared, overdue = 0;
        cpu_limit(150);
        cstl_hash_init(&H, offsetof(struct el, xn));
        cstl_hash_resize(&H, 4, hid);
        cstl_hash_insert(&H, 0, &pool[1]); cstl_hash_insert(&H, 1, &pool[2]);
        for (i = 0; i < n; i++) {
            int k;
            cstl_hash_resize(&H, (i & 1) ? 4 : 5, NULL);
            for (k = 0; k < 6; k++) (void)cstl_hash_find(&H, (size_t)(k & 1), NULL, NULL);      /* more keyed operations than buckets */
            if (H.bucket.rh.hash != NULL) overdue++;
        }
        cstl_hash_insert(&H, 3, &pool[3]); cstl_hash_insert(&H, 2, &pool[4]); cstl_hash_insert(&H, 7, &pool[5]);
        cstl_hash_resize(&H, 2, NULL);
        for (i = 1; i <= 5; i++) if (cstl_hash_find(&H, (size_t)pool[i].v, NULL, NULL) == &pool[i]) found++;
        hvis = 0; hvis_once = 1; cstl_hash_foreach_const(&H, (cstl_const_visit_func_t *)hvisit, NULL); vis = hvis; once = hvis_once;
        size = (long)cstl_hash_size(&H);
        memset(hseen, 0, 16); hvis = 0;
        cstl_hash_clear(&H, (cstl_xtor_func_t *)hvisit); cleared = hvis;
        cpu_limit(0);
        fprintf(out, "\"found\":%ld,\"visited\":%ld,\"once\":%s,\"size\":%ld,\"cleared\":%ld,\"overdue\":%ld", found, vis, once ? "true" : "false", size, cleared, overdue);
        end_ok();
    } else { cpu_limit(0); end_sig(sig); }
    free(hseen);
}

/* ---- a vector of more than 2^32 one-byte elements, destructor only (the storage is never touched) ---- */
static unsigned char *hv_base; static long hv_n, hv_bad; static unsigned long hv_lo, hv_hi;
static void hv_dtor(void *e, void *p) { unsigned long off = (unsigned long)((unsigned char *)e - hv_base); (void)p; hv_n++; if (off < hv_lo || off >= hv_hi) hv_bad++; }
static void do_vechuge(long extra)
{
    struct cstl_vector v; int sig; const unsigned long B = 1UL << 32;
    begin("vechuge", extra);
    sig = sigsetjmp(jb, 1);
    if (sig == 0) {
        long d1, d2, size1, size2, bad, skipped = 0;
        cpu_limit(150);
        cstl_vector_init_complex(&v, 1, NULL, hv_dtor, NULL);
        cstl_vector_reserve(&v, (size_t)(B + 16));
        if (cstl_vector_capacity(&v) < B + 16) skipped = 1;                 /* 4 GiB of address space not to be had here */
        d1 = d2 = size1 = size2 = bad = 0;
        if (!skipped) {
            cstl_vector_resize(&v, (size_t)(B + 10));
            hv_base = cstl_vector_data(&v);
            hv_n = 0; hv_bad = 0; hv_lo = B + 5; hv_hi = B + 10;
            cstl_vector_resize(&v, (size_t)(B + 5)); d1 = hv_n; size1 = (long)(cstl_vector_size(&v) - B);
            hv_n = 0; hv_lo = B + 2; hv_hi = B + 5;
            cstl_vector_resize(&v, (size_t)(B + 2)); d2 = hv_n; size2 = (long)(cstl_vector_size(&v) - B);
            bad = hv_bad;
            free(hv_base);                         /* not cleared: that would be 2^32 destructor calls */
        }
        cpu_limit(0);
        fprintf(out, "\"skipped\":%s,\"d1\":%ld,\"size1\":%ld,\"d2\":%ld,\"size2\":%ld,\"bad\":%ld", skipped ? "true" : "false", d1, size1, d2, size2, bad);
        end_ok();
    } else { cpu_limit(0); end_sig(sig); }
}

int main(int argc, char **argv)
{
    int a;
    if (argc < 4) { fprintf(stderr, "usage: drv_big <out> <seed> <what:n>...\n"); return 64; }
    out = fopen(argv[1], "w"); if (!out) return 73;
    rs = strtoul(argv[2], NULL, 10) * 2654435761UL + 99;
    {   /* a stack overflow must be reportable: handlers run on their own stack */
        static char altstack[1 << 16]; stack_t ss; struct sigaction sa;
        ss.ss_sp = altstack; ss.ss_size = sizeof altstack; ss.ss_flags = 0; sigaltstack(&ss, NULL);
        memset(&sa, 0, sizeof sa); sa.sa_handler = onsig; sa.sa_flags = SA_ONSTACK | SA_NODEFER;
        sigaction(SIGABRT, &sa, NULL); sigaction(SIGSEGV, &sa, NULL); sigaction(SIGBUS, &sa, NULL); sigaction(SIGALRM, &sa, NULL); sigaction(SIGPROF, &sa, NULL);
    }
    fprintf(out, "{\"id\":0,\"hdr\":true,\"mode\":\"big\"}\n");
    for (a = 3; a < argc; a++) {
        char *c = strchr(argv[a], ':'); long n = c ? atol(c + 1) : 70000;
        if (!strncmp(argv[a], "heap", 4)) { do_heap(n, 0); do_heap(n, 1); }
        else if (!strncmp(argv[a], "slist", 5)) do_list(n, 0);
        else if (!strncmp(argv[a], "dlist", 5)) do_list(n, 1);
        else if (!strncmp(argv[a], "rb", 2)) do_tree(n, 1);
        else if (!strncmp(argv[a], "bst", 3)) do_tree(n, 0);
        else if (!strncmp(argv[a], "map", 3)) do_map(n);
        else if (!strncmp(argv[a], "hashlife", 8)) do_hashlife(n);
        else if (!strncmp(argv[a], "hash", 4) && strncmp(argv[a], "hashdup", 7)) do_hash(n);
        else if (!strncmp(argv[a], "sort", 4)) do_sort(n);
        else if (!strncmp(argv[a], "vechuge", 7)) do_vechuge(n);
        else if (!strncmp(argv[a], "hashdup", 7)) do_hashdup(n);
        else if (!strncmp(argv[a], "refs", 4)) do_refs(n);
        else if (!strncmp(argv[a], "views", 5)) do_views(n);
        else if (!strncmp(argv[a], "vec", 3)) do_vec(n);
        else if (!strncmp(argv[a], "str", 3)) do_str(n);
    }
    fclose(out);
    printf("{\"records\":%ld}\n", rec_id);
    return 0;
}
