/*
 * drv_ptr.c — conformance driver for src/memory.c / include/cstl/memory.h
 * (guarded, unique, shared, weak pointers): properties C05 and C20.
 * scope args: <ns> <nw> <nu> <faults 0|1> <stray 0|1> [maxalloc]
 * ops:  0 salloc(s, clr, failmask, zero) 1 share(e, n) 2 sswap(a, b) 3 sreset(s) 4 sget(s) 5 sunique(s)
 *       6 wfrom(w, s) 7 wlock(w, s) 8 wswap(a, b) 9 wreset(w)
 *       10 ualloc(u, clr, fail, zero) 11 urelease(u) 12 uswap(a, b) 13 ureset(u) 14 uget(u)
 *       15 stray(f, pos, x, y): call library function f with a bit-copy of object x in argument position pos
 * Bookkeeping blocks are named by their index in the canonical order (first
 * reference from S1.., W1..) of the state *before* the operation; 99 = a block
 * allocated by the operation itself.
 */
#include "alloc.h"
#include "cstl/memory.h"

#define MAXO 4
#define MAXA 1800
#define NEWIDX 99
static int NS, NW, NU, FAULTS, STRAY, MAXALLOC = 99;
static cstl_shared_ptr_t S[MAXO + 1];
static cstl_weak_ptr_t W[MAXO + 1];
static cstl_unique_ptr_t U[MAXO + 1];
static struct cstl_guarded_ptr G[3];
static int gtarget[3];

/* every allocation made through cstl_shared_ptr_alloc since reset */
static struct { void *d, *m; int clr; } tab[MAXA]; static int ntab;
static int tab_of_d(const void *d) { int i; for (i = 0; i < ntab; i++) if (tab[i].d == d) return i; return -1; }

/* snapshot of the numbering before the operation */
static void *pre_d[MAXA]; static int npre;
static void *pre_u[MAXO + 1];
static int pre_index(const void *d) { int i; if (!d) return 0; for (i = 0; i < npre; i++) if (pre_d[i] == d) return i + 1; return NEWIDX; }
static void *raw_ptr(const struct cstl_guarded_ptr *g) { return g->ptr; }   /* field read, no guard check */
static void snapshot(void)
{
    int i;
    npre = 0;
    for (i = 1; i <= NS + NW; i++) {
        void *d = i <= NS ? raw_ptr(&S[i].data) : raw_ptr(&W[i - NS].data);
        int j, seen = 0;
        if (!d) continue;
        for (j = 0; j < npre; j++) if (pre_d[j] == d) seen = 1;
        if (!seen && npre < MAXA) pre_d[npre++] = d;
    }
    for (i = 1; i <= NU; i++) pre_u[i] = raw_ptr(&U[i].gp);
}
static int opkind;                  /* what the running op allocates: 0 shared, 10 unique */
static int nalloc_in_op;
static void *new_d;
static void hook(const char *kind, void *oldp, void *newp, size_t n)
{
    (void)n;
    if (!strcmp(kind, "allocfail")) { ev_add("[\"allocfail\"]"); nalloc_in_op++; return; }
    if (!strcmp(kind, "alloc")) {
        if (opkind == 10) ev_add("[\"allocu\"]");
        else if (nalloc_in_op == 0) { ev_add("[\"allocd\"]"); new_d = newp; if (ntab < MAXA) { tab[ntab].d = newp; tab[ntab].m = NULL; tab[ntab].clr = 0; ntab++; } }
        else { ev_add("[\"allocm\"]"); if (ntab) tab[ntab - 1].m = newp; }
        nalloc_in_op++;
        return;
    }
    if (!strcmp(kind, "free")) {
        int i;
        for (i = 0; i < npre; i++) {
            int t = tab_of_d(pre_d[i]);
            if (pre_d[i] == oldp) { ev_add("[\"freed\",%d]", i + 1); return; }
            if (t >= 0 && tab[t].m == oldp) { ev_add("[\"freem\",%d]", i + 1); return; }
        }
        if (oldp == new_d) { ev_add("[\"freed\",%d]", NEWIDX); return; }
        for (i = 1; i <= NU; i++) if (pre_u[i] == oldp) { ev_add("[\"ufree\",%d]", i); return; }
        { int t; for (t = 0; t < ntab; t++) if (tab[t].m == oldp && tab[t].d == new_d) { ev_add("[\"freem\",%d]", NEWIDX); return; } }
        ev_add("[\"free?\"]");
    }
}
static void sclr(void *p, void *priv)
{
    int i;
    (void)priv;
    for (i = 0; i < npre; i++) { int t = tab_of_d(pre_d[i]); if (t >= 0 && tab[t].m == p) { ev_add("[\"clr\",%d]", i + 1); return; } }
    ev_add("[\"clr\",%d]", NEWIDX);
}
/* a clear callback that calls back into the library: it resets weak pointer W1 */
static void sclr2(void *p, void *priv)
{
    sclr(p, priv);
    cstl_weak_ptr_reset(&W[1]);
}
/* a clear callback that asks, through weak pointer W1, whether the object is still owned (a registry purging
 * itself from a destructor does this): lock W1 into a temporary, note whether an owner came back, drop it */
static void sclr3(void *p, void *priv)
{
    cstl_shared_ptr_t tmp;
    sclr(p, priv);
    cstl_shared_ptr_init(&tmp);
    cstl_weak_ptr_lock(&W[1], &tmp);
    ev_add("[\"cblock\",%d]", cstl_shared_ptr_get(&tmp) != NULL ? 1 : 0);
    cstl_shared_ptr_reset(&tmp);
}
/* a clear callback that resets another shared pointer object (S[NS]) - unless that is the object the running
 * operation is re-targeting: a second allocation may be torn down inside the first one's callback */
static int cur_self;
static void sclr4(void *p, void *priv)
{
    sclr(p, priv);
    if (cur_self != NS) { int save = cur_self; cur_self = NS; cstl_shared_ptr_reset(&S[NS]); cur_self = save; }    /* S[NS] is being re-targeted meanwhile */
}
static void uclr(void *p, void *priv)
{
    int i;
    (void)priv;
    for (i = 1; i <= NU; i++) if (pre_u[i] == p) { ev_add("[\"uclr\",%d]", i); return; }
    ev_add("[\"uclr\",0]");
}

static void drv_setup(int argc, char **argv)
{
    if (argc < 5) { fprintf(stderr, "drv_ptr: scope = <ns> <nw> <nu> <faults> <stray> [maxalloc]\n"); exit(64); }
    NS = atoi(argv[0]); NW = atoi(argv[1]); NU = atoi(argv[2]); FAULTS = atoi(argv[3]); STRAY = atoi(argv[4]);
    if (argc > 5) MAXALLOC = atoi(argv[5]);
    if (NS > MAXO || NW > MAXO || NU > MAXO) exit(64);
}
static void drv_header(jb_t *b) { jb_printf(b, "\"ns\":%d,\"nw\":%d,\"nu\":%d,\"faults\":%s", NS, NW, NU, FAULTS ? "true" : "false"); }
static void drv_reset(void)
{
    int i;
    a_reset(); a_hook = hook; ntab = 0; new_d = NULL;
#ifdef USE_INITIALIZER
    for (i = 0; i <= MAXO; i++) {
        cstl_shared_ptr_t s = CSTL_SHARED_PTR_INITIALIZER(S[i]); cstl_weak_ptr_t w = CSTL_WEAK_PTR_INITIALIZER(W[i]);
        cstl_unique_ptr_t u = CSTL_UNIQUE_PTR_INITIALIZER(U[i]);
        S[i] = s; W[i] = w; U[i] = u;
    }
    { struct cstl_guarded_ptr g0 = CSTL_GUARDED_PTR_INITIALIZER(G[0]); G[0] = g0; }
#else
    for (i = 0; i <= MAXO; i++) { cstl_shared_ptr_init(&S[i]); cstl_weak_ptr_init(&W[i]); cstl_unique_ptr_init(&U[i]); }
#endif
    for (i = 0; i < 3; i++) cstl_guarded_ptr_set(&G[i], &gtarget[i]);
}
static void drv_aborted(void) { a_end(); }

static void post_targets(jb_t *res)
{
    int i;
    jb_puts(res, ",\"tsp\":[");
    for (i = 1; i <= NS; i++) jb_printf(res, "%s%d", i > 1 ? "," : "", pre_index(raw_ptr(&S[i].data)));
    jb_puts(res, "],\"twp\":[");
    for (i = 1; i <= NW; i++) jb_printf(res, "%s%d", i > 1 ? "," : "", pre_index(raw_ptr(&W[i].data)));
    jb_puts(res, "]");
}
static int mem_index(const void *m)
{
    int i;
    if (!m) return 0;
    for (i = 0; i < npre; i++) { int t = tab_of_d(pre_d[i]); if (t >= 0 && tab[t].m == m) return i + 1; }
    return -1;
}

/* ---- C20: library entry points applied to a stray bit-copy ---- */
static const char *FN[] = { "?", "gget", "gcopy", "gswap", "ginit", "gset", "uget", "ualloc", "urelease", "uswap", "ureset", "uinit",
                            "sget", "sunique", "salloc", "share", "sswap", "sreset", "sinit", "wfrom", "wlock", "wswap", "wreset", "winit",
                            "ualloc0", "salloc0", "gcopyself", "uallocbig", "sallocbig" };
#define NFN 28
static int fn_nargs(int f) { return (f == 2 || f == 3 || f == 9 || f == 15 || f == 16 || f == 19 || f == 20 || f == 21) ? 2 : 1; }
/* kind of object in each position: 'g','u','s','w' */
static char fn_kind(int f, int pos)
{
    if (f <= 5) return 'g';
    if (f <= 11) return 'u';
    if (f <= 18) return 's';
    if (f == 19) return pos == 1 ? 'w' : 's';
    if (f == 20) return pos == 1 ? 'w' : 's';
    if (f == 24) return 'u';
    if (f == 25) return 's';
    if (f == 26) return 'g';
    if (f == 27) return 'u';
    if (f == 28) return 's';
    return 'w';
}
static void call_fn(int f, void *a1, void *a2)
{
    switch (f) {
    case 1: (void)cstl_guarded_ptr_get(a1); break;
    case 2: cstl_guarded_ptr_copy(a1, a2); break;
    case 3: cstl_guarded_ptr_swap(a1, a2); break;
    case 4: cstl_guarded_ptr_init(a1); break;
    case 5: cstl_guarded_ptr_set(a1, &gtarget[2]); break;
    case 6: (void)cstl_unique_ptr_get(a1); break;
    case 7: cstl_unique_ptr_alloc(a1, 8, NULL, NULL); break;
    case 8: (void)cstl_unique_ptr_release(a1, NULL, NULL); break;
    case 9: cstl_unique_ptr_swap(a1, a2); break;
    case 10: cstl_unique_ptr_reset(a1); break;
    case 11: cstl_unique_ptr_init(a1); break;
    case 12: (void)cstl_shared_ptr_get(a1); break;
    case 13: (void)cstl_shared_ptr_unique(a1); break;
    case 14: cstl_shared_ptr_alloc(a1, 8, NULL); break;
    case 15: cstl_shared_ptr_share(a1, a2); break;
    case 16: cstl_shared_ptr_swap(a1, a2); break;
    case 17: cstl_shared_ptr_reset(a1); break;
    case 18: cstl_shared_ptr_init(a1); break;
    case 19: cstl_weak_ptr_from(a1, a2); break;
    case 20: cstl_weak_ptr_lock(a1, a2); break;
    case 21: cstl_weak_ptr_swap(a1, a2); break;
    case 22: cstl_weak_ptr_reset(a1); break;
    case 23: cstl_weak_ptr_init(a1); break;
    case 24: cstl_unique_ptr_alloc(a1, 0, NULL, NULL); break;      /* zero size: only resets */
    case 25: cstl_shared_ptr_alloc(a1, 0, NULL); break;
    case 26: cstl_guarded_ptr_copy(a1, a1); break;                 /* source and destination the same stray object */
    case 27: cstl_unique_ptr_alloc(a1, SIZE_MAX - 4096, NULL, NULL); break;     /* an allocation that cannot be satisfied */
    case 28: cstl_shared_ptr_alloc(a1, SIZE_MAX - 4096, NULL); break;
    }
}
static void *obj_of(char kind, int idx)
{
    switch (kind) { case 'g': return &G[idx]; case 'u': return &U[idx]; case 's': return &S[idx]; default: return &W[idx]; }
}
static size_t obj_size(char kind)
{
    switch (kind) { case 'g': return sizeof(struct cstl_guarded_ptr); case 'u': return sizeof(cstl_unique_ptr_t); default: return sizeof(cstl_shared_ptr_t); }
}

static void drv_apply(const vop_t *op, jb_t *res)
{
    const int *a = op->a;
    snapshot(); nalloc_in_op = 0; new_d = NULL; opkind = op->k;
    cur_self = op->k == 0 || op->k == 3 ? a[0] : op->k == 1 || op->k == 7 ? a[1] : op->k == 15 ? NS : 0;
    switch (op->k) {
    case 0:
        a_begin((unsigned long)a[2]);
        cstl_shared_ptr_alloc(&S[a[0]], a[3] ? 0 : 16, a[1] == 4 ? sclr4 : a[1] == 3 ? sclr3 : a[1] == 2 ? sclr2 : a[1] ? sclr : NULL);
        a_end();
        if (ntab && tab[ntab - 1].d == new_d) tab[ntab - 1].clr = a[1];
        jb_puts(res, ",\"ret\":0");
        break;
    case 1: a_begin(0); cstl_shared_ptr_share(&S[a[0]], &S[a[1]]); a_end(); jb_puts(res, ",\"ret\":0"); break;
    case 2: a_begin(0); cstl_shared_ptr_swap(&S[a[0]], &S[a[1]]); a_end(); jb_puts(res, ",\"ret\":0"); break;
    case 3: a_begin(0); cstl_shared_ptr_reset(&S[a[0]]); a_end(); jb_puts(res, ",\"ret\":0"); break;
    case 4: jb_printf(res, ",\"ret\":%d", mem_index(cstl_shared_ptr_get(&S[a[0]]))); break;
    case 5: jb_printf(res, ",\"ret\":%d", cstl_shared_ptr_unique(&S[a[0]]) ? 1 : 0); break;
    case 6: a_begin(0); cstl_weak_ptr_from(&W[a[0]], &S[a[1]]); a_end(); jb_puts(res, ",\"ret\":0"); break;
    case 7: a_begin(0); cstl_weak_ptr_lock(&W[a[0]], &S[a[1]]); a_end(); jb_puts(res, ",\"ret\":0"); break;
    case 8: a_begin(0); cstl_weak_ptr_swap(&W[a[0]], &W[a[1]]); a_end(); jb_puts(res, ",\"ret\":0"); break;
    case 9: a_begin(0); cstl_weak_ptr_reset(&W[a[0]]); a_end(); jb_puts(res, ",\"ret\":0"); break;
    case 10:
        a_begin((unsigned long)a[2]);
        cstl_unique_ptr_alloc(&U[a[0]], a[3] ? 0 : 24, a[1] ? uclr : NULL, NULL);
        a_end();
        jb_puts(res, ",\"ret\":0");
        break;
    case 11: {
        cstl_xtor_func_t *f = (cstl_xtor_func_t *)&drv_apply; void *pv = &f; void *p;
        int hadclr = U[a[0]].clr.func != NULL;
        a_begin(0);
        /* a[1]: which of the two out-parameters the caller passes (bit 0: clr is NULL, bit 1: priv is NULL) */
        p = cstl_unique_ptr_release(&U[a[0]], (a[1] & 1) ? NULL : &f, (a[1] & 2) ? NULL : &pv);
        if (a[1] & 1) f = hadclr ? (cstl_xtor_func_t *)&drv_apply : NULL;
        free(p);                                   /* the caller owns it now */
        a_end();
        jb_printf(res, ",\"ret\":[%d,%d]", p ? 1 : 0, f ? 1 : 0);
        break;
    }
    case 12: a_begin(0); cstl_unique_ptr_swap(&U[a[0]], &U[a[1]]); a_end(); jb_puts(res, ",\"ret\":0"); break;
    case 13: a_begin(0); cstl_unique_ptr_reset(&U[a[0]]); a_end(); jb_puts(res, ",\"ret\":0"); break;
    case 14: jb_printf(res, ",\"ret\":%d", cstl_unique_ptr_get(&U[a[0]]) == pre_u[a[0]] ? (pre_u[a[0]] ? 1 : 0) : -1); break;
    case 15: {
        /* a[0]=f a[1]=pos a[2]=x (object bit-copied) a[3]=y (the other, proper, argument) */
        union { struct cstl_guarded_ptr g; cstl_unique_ptr_t u; cstl_shared_ptr_t s; } stray;
        int f = a[0], pos = a[1];
        char k1 = fn_kind(f, 1), k2 = fn_nargs(f) > 1 ? fn_kind(f, 2) : 0;
        void *a1, *a2 = NULL;
        memset(&stray, 0, sizeof stray);
        memcpy(&stray, obj_of(pos == 2 ? k2 : k1, a[2]), obj_size(pos == 2 ? k2 : k1));
        /* pos 3: the same stray copy in both argument positions (an object "swapped with itself", say) */
        a1 = pos != 2 ? (void *)&stray : obj_of(k1, a[3]);
        if (k2) a2 = pos >= 2 ? (void *)&stray : obj_of(k2, a[3]);
        a_begin(0); call_fn(f, a1, a2); a_end();
        jb_puts(res, ",\"ret\":0");
        break;
    }
    default: jb_puts(res, ",\"ret\":0");
    }
    post_targets(res);
}
static void drv_opjson(const vop_t *op, jb_t *b)
{
    const int *a = op->a;
    switch (op->k) {
    case 0: jb_printf(b, "\"op\":\"salloc\",\"s\":%d,\"clr\":%d,\"ok\":[%s,%s],\"zero\":%s", a[0], a[1],
                      (a[2] & 1) ? "false" : "true", (a[2] & 2) ? "false" : "true", a[3] ? "true" : "false"); break;
    case 1: jb_printf(b, "\"op\":\"share\",\"e\":%d,\"n\":%d", a[0], a[1]); break;
    case 2: jb_printf(b, "\"op\":\"sswap\",\"a\":%d,\"b\":%d", a[0], a[1]); break;
    case 3: jb_printf(b, "\"op\":\"sreset\",\"s\":%d", a[0]); break;
    case 4: jb_printf(b, "\"op\":\"sget\",\"s\":%d", a[0]); break;
    case 5: jb_printf(b, "\"op\":\"sunique\",\"s\":%d", a[0]); break;
    case 6: jb_printf(b, "\"op\":\"wfrom\",\"w\":%d,\"s\":%d", a[0], a[1]); break;
    case 7: jb_printf(b, "\"op\":\"wlock\",\"w\":%d,\"s\":%d", a[0], a[1]); break;
    case 8: jb_printf(b, "\"op\":\"wswap\",\"a\":%d,\"b\":%d", a[0], a[1]); break;
    case 9: jb_printf(b, "\"op\":\"wreset\",\"w\":%d", a[0]); break;
    case 10: jb_printf(b, "\"op\":\"ualloc\",\"u\":%d,\"clr\":%s,\"ok\":[%s],\"zero\":%s", a[0], a[1] ? "true" : "false",
                       (a[2] & 1) ? "false" : "true", a[3] ? "true" : "false"); break;
    case 11: jb_printf(b, "\"op\":\"urelease\",\"u\":%d,\"outs\":%d", a[0], a[1]); break;
    case 12: jb_printf(b, "\"op\":\"uswap\",\"a\":%d,\"b\":%d", a[0], a[1]); break;
    case 13: jb_printf(b, "\"op\":\"ureset\",\"u\":%d", a[0]); break;
    case 14: jb_printf(b, "\"op\":\"uget\",\"u\":%d", a[0]); break;
    case 15: jb_printf(b, "\"op\":\"stray\",\"f\":\"%s\",\"pos\":%d,\"x\":%d,\"y\":%d", a[0] >= 1 && a[0] <= NFN ? FN[a[0]] : "?", a[1], a[2], a[3]); break;
    default: jb_printf(b, "\"op\":\"?%d\"", op->k);
    }
}
static int drv_terminal(const vop_t *op) { return op->k == 15; }

static void drv_ser(jb_t *b)
{
    int i, bad = 0;
    snapshot();
    jb_puts(b, "{\"sp\":[");
    for (i = 1; i <= NS; i++) { int x = pre_index(raw_ptr(&S[i].data)); jb_printf(b, "%s%d", i > 1 ? "," : "", x); if (S[i].data.self != &S[i].data) bad = 1; }
    jb_puts(b, "],\"wp\":[");
    for (i = 1; i <= NW; i++) { int x = pre_index(raw_ptr(&W[i].data)); jb_printf(b, "%s%d", i > 1 ? "," : "", x); if (W[i].data.self != &W[i].data) bad = 1; }
    jb_puts(b, "],\"al\":[");
    for (i = 0; i < npre; i++) {
        int t = tab_of_d(pre_d[i]);
        a_blk_t *db = a_find(pre_d[i]), *mb = t >= 0 && tab[t].m ? a_find(tab[t].m) : NULL;
        size_t hard = 0, soft = 0;
        if (db && db->live && db->n >= 2 * sizeof(size_t)) { hard = ((size_t *)pre_d[i])[0]; soft = ((size_t *)pre_d[i])[1]; } else bad = 1;
        jb_printf(b, "%s{\"hard\":%ld,\"soft\":%ld,\"mem\":%s,\"clr\":%d}", i ? "," : "", hard < 1000 ? (long)hard : -1L, soft < 1000 ? (long)soft : -1L,
                  mb && mb->live ? "true" : "false", t >= 0 && mb && mb->live ? tab[t].clr : 0);
    }
    jb_puts(b, "],\"up\":[");
    for (i = 1; i <= NU; i++) {
        void *p = raw_ptr(&U[i].gp); a_blk_t *ub = p ? a_find(p) : NULL;
        if (p && !(ub && ub->live)) bad = 1;
        if (U[i].gp.self != &U[i].gp) bad = 1;
        jb_printf(b, "%s{\"has\":%s,\"clr\":%s}", i > 1 ? "," : "", p ? "true" : "false", U[i].clr.func ? "true" : "false");
    }
    jb_printf(b, "],\"nlive\":%d,\"damage\":%s,\"bad\":%s}", a_live_count(), a_check() ? "true" : "false", bad ? "true" : "false");
}
#define ADD(K, A0, A1, A2, A3) do { vop_t o_ = { K, { A0, A1, A2, A3 } }; ops[no++] = o_; } while (0)
static int drv_enum(vop_t *ops, int max)
{
    int no = 0, s, t, w, u, c, f, pos;
    (void)max;
    snapshot();
    for (s = 1; s <= NS; s++) {
        int room = npre < MAXALLOC || (raw_ptr(&S[s].data) != NULL);
        for (c = 0; c <= 4 && room; c++) { if ((c == 2 || c == 3) && NW < 1) continue; if (c == 4 && NS < 2) continue; ADD(0, s, c, 0, 0); if (FAULTS) { ADD(0, s, c, 1, 0); ADD(0, s, c, 2, 0); } }
        ADD(0, s, 0, 0, 1);
        for (t = 1; t <= NS; t++) { ADD(1, s, t, 0, 0); if (t >= s) ADD(2, s, t, 0, 0); }   /* t == s: swapped with itself */
        ADD(3, s, 0, 0, 0); ADD(4, s, 0, 0, 0); ADD(5, s, 0, 0, 0);
    }
    for (w = 1; w <= NW; w++) {
        for (s = 1; s <= NS; s++) { ADD(6, w, s, 0, 0); ADD(7, w, s, 0, 0); }
        for (t = w; t <= NW; t++) ADD(8, w, t, 0, 0);
        ADD(9, w, 0, 0, 0);
    }
    for (u = 1; u <= NU; u++) {
        for (c = 0; c < 2; c++) { ADD(10, u, c, 0, 0); if (FAULTS) ADD(10, u, c, 1, 0); }
        ADD(10, u, 0, 0, 1);
        ADD(11, u, 0, 0, 0); ADD(11, u, 1, 0, 0); ADD(11, u, 2, 0, 0); ADD(11, u, 3, 0, 0); ADD(13, u, 0, 0, 0); ADD(14, u, 0, 0, 0);
        for (t = u; t <= NU; t++) ADD(12, u, t, 0, 0);
    }
    if (STRAY) for (f = 1; f <= NFN; f++) for (pos = 1; pos <= fn_nargs(f); pos++) {
        char k = fn_kind(f, pos), ko = fn_nargs(f) > 1 ? fn_kind(f, 3 - pos) : 0;
        int nx = k == 'g' ? 2 : k == 'u' ? NU : k == 's' ? NS : NW, x, y;
        int ny = !ko ? 1 : ko == 'g' ? 2 : ko == 'u' ? NU : ko == 's' ? NS : NW;
        for (x = 1; x <= nx; x++) for (y = 1; y <= ny; y++) {
            if (ko == k && y == x) continue;          /* the other argument is a different, proper object */
            ADD(15, f, pos, x, y);
        }
        if (pos == 1 && ko == k) for (x = 1; x <= nx; x++) ADD(15, f, 3, x, x);     /* both arguments the same stray copy */
    }
    return no;
}
static int drv_random(unsigned long (*rnd)(void), vop_t *op)
{
    unsigned long r = rnd() % 100;
    int s = 1 + (int)(rnd() % (unsigned)NS), t = 1 + (int)(rnd() % (unsigned)NS);
    int w = NW ? 1 + (int)(rnd() % (unsigned)NW) : 0, w2 = NW ? 1 + (int)(rnd() % (unsigned)NW) : 0;
    int u = NU ? 1 + (int)(rnd() % (unsigned)NU) : 0, u2 = NU ? 1 + (int)(rnd() % (unsigned)NU) : 0;
    snapshot();
    if (ntab > MAXA - 4 || a_nblk > A_MAX - 8) return 0;      /* tables full: end this walk */
    if (r < 14 && (npre < MAXALLOC || raw_ptr(&S[s].data))) { op->k = 0; op->a[0] = s; op->a[1] = (int)(rnd() % (NW >= 1 ? 4 : 2)); if (NS >= 2 && rnd() % 5 == 0) op->a[1] = 4; op->a[2] = FAULTS && rnd() % 6 == 0 ? 1 + (int)(rnd() & 1) : 0; op->a[3] = rnd() % 12 == 0; }
    else if (r < 30) { op->k = 1; op->a[0] = s; op->a[1] = t; }
    else if (r < 36) { op->k = 2; op->a[0] = s; op->a[1] = t; }
    else if (r < 50) { op->k = 3; op->a[0] = s; }
    else if (r < 54) { op->k = 4 + (int)(rnd() & 1); op->a[0] = s; }
    else if (r < 62 && w) { op->k = 6; op->a[0] = w; op->a[1] = s; }
    else if (r < 72 && w) { op->k = 7; op->a[0] = w; op->a[1] = s; }
    else if (r < 75 && w && w2) { op->k = 8; op->a[0] = w; op->a[1] = w2; }
    else if (r < 82 && w) { op->k = 9; op->a[0] = w; }
    else if (r < 88 && u) { op->k = 10; op->a[0] = u; op->a[1] = (int)(rnd() & 1); op->a[2] = FAULTS && rnd() % 6 == 0; op->a[3] = rnd() % 12 == 0; }
    else if (r < 91 && u) { op->k = 11; op->a[0] = u; op->a[1] = (int)(rnd() % 4); }
    else if (r < 94 && u && u2) { op->k = 12; op->a[0] = u; op->a[1] = u2; }
    else if (r < 97 && u) { op->k = 13; op->a[0] = u; }
    else if (u) { op->k = 14; op->a[0] = u; }
    else { op->k = 5; op->a[0] = s; }
    return 1;
}
int main(int argc, char **argv) { return e_main(argc, argv); }
