/*
 * drv_hashcall.c — records calls of the built-in hash functions
 * cstl_hash_div / cstl_hash_mul on a boundary-biased sweep as NDJSON
 *   {"id":n,"f":"mul","k":[l3,l2,l1,l0],"m":[..],"r":[..],"small":bool,"ks":k,"ms":m,"rs":r}
 * (64-bit values as four 16-bit limbs, most significant first: TLC integers are
 * 32-bit).  TLC (TraceHashCall.tla) judges r < m for every record.
 * usage: drv_hashcall <out> <seed> <count>
 */
#define _GNU_SOURCE
#include <stdio.h>
#include <stdlib.h>
#include <stdint.h>
#include <signal.h>
#include <setjmp.h>
#include <string.h>
#include "cstl/hash.h"

static uint64_t s[2];
static uint64_t rnd(void) { uint64_t x = s[0], y = s[1]; s[0] = y; x ^= x << 23; s[1] = x ^ y ^ (x >> 17) ^ (y >> 26); return s[1] + y; }
static void limbs(FILE *o, const char *n, uint64_t v)
{
    fprintf(o, "\"%s\":[%u,%u,%u,%u]", n, (unsigned)(v >> 48) & 0xffff, (unsigned)(v >> 32) & 0xffff, (unsigned)(v >> 16) & 0xffff, (unsigned)v & 0xffff);
}
static sigjmp_buf jb;
static void onsig(int sg) { siglongjmp(jb, sg); }

/* ---- dense sweep: every key below 2^bits against a handful of table sizes, in parallel.  Only calls whose
 * result is out of range (none on a correct library) and an evenly spaced sample are written out for TLC. ---- */
#include <pthread.h>
#define NTHR 16
static const uint64_t dense_m[] = { 1, 2, 3, 7, 64, 1000, (1u << 24) + 1, 0x100000001ull, UINT64_MAX };
#define NDM (sizeof dense_m / sizeof dense_m[0])
struct slice { uint64_t lo, hi; uint64_t bad[64][3]; int nbad; uint64_t calls; };
static void *dense_run(void *arg)
{
    struct slice *sl = arg; uint64_t k; size_t j;
    for (k = sl->lo; k < sl->hi; k++) for (j = 0; j < NDM; j++) {
        uint64_t m = dense_m[j], r = cstl_hash_mul((size_t)k, (size_t)m);
        sl->calls++;
        if (r >= m && sl->nbad < 64) { sl->bad[sl->nbad][0] = k; sl->bad[sl->nbad][1] = m; sl->bad[sl->nbad][2] = r; sl->nbad++; }
    }
    return NULL;
}
static int dense(const char *path, int bits)
{
    FILE *o = fopen(path, "w"); pthread_t th[NTHR]; static struct slice sl[NTHR]; uint64_t n = (uint64_t)1 << bits, total = 0; long id = 0; int t, i;
    if (!o) return 73;
    fprintf(o, "{\"id\":0,\"hdr\":true}\n");
    for (t = 0; t < NTHR; t++) { sl[t].lo = n / NTHR * (uint64_t)t; sl[t].hi = t == NTHR - 1 ? n : n / NTHR * (uint64_t)(t + 1); sl[t].nbad = 0; sl[t].calls = 0; pthread_create(&th[t], NULL, dense_run, &sl[t]); }
    for (t = 0; t < NTHR; t++) { pthread_join(th[t], NULL); total += sl[t].calls; }
    for (t = 0; t < NTHR; t++) for (i = 0; i < sl[t].nbad; i++) {
        fprintf(o, "{\"id\":%ld,\"f\":\"mul\",\"crash\":false,", ++id);
        limbs(o, "k", sl[t].bad[i][0]); fputc(',', o); limbs(o, "m", sl[t].bad[i][1]); fputc(',', o); limbs(o, "r", sl[t].bad[i][2]);
        fprintf(o, ",\"small\":false,\"ks\":0,\"ms\":0,\"rs\":0,\"dense\":true}\n");
    }
    for (i = 0; i < 400; i++) {            /* a sample of what was computed, so the evidence shows real calls */
        uint64_t k = n / 400 * (uint64_t)i + 987, m = dense_m[i % NDM], r = cstl_hash_mul((size_t)k, (size_t)m);
        fprintf(o, "{\"id\":%ld,\"f\":\"mul\",\"crash\":false,", ++id);
        limbs(o, "k", k); fputc(',', o); limbs(o, "m", m); fputc(',', o); limbs(o, "r", r);
        fprintf(o, ",\"small\":false,\"ks\":0,\"ms\":0,\"rs\":0,\"dense\":true}\n");
    }
    fclose(o);
    printf("{\"calls\":%llu,\"records\":%ld}\n", (unsigned long long)total, id);
    return 0;
}
int main(int argc, char **argv)
{
    FILE *o; long n, i, id = 0; uint64_t fib[94]; int nf = 0, j;
    static const uint64_t ms_fixed[] = { 1, 2, 3, 5, 7, 8, 16, 31, 64, 100, 1000, 65535, 65536, (1u << 24) - 1, 1u << 24, (1u << 24) + 1,
        (1u << 24) + 2, (1u << 25) + 1, 0xffffffffu, 0x100000000ull, 0x100000001ull, 1ull << 40, (1ull << 53) + 1, UINT64_MAX, UINT64_MAX - 1, UINT64_MAX / 2 };
    if (argc >= 4 && !strcmp(argv[2], "dense")) return dense(argv[1], atoi(argv[3]));
    if (argc < 4) return 64;
    o = fopen(argv[1], "w"); if (!o) return 73;
    s[0] = strtoull(argv[2], NULL, 10) * 0x9E3779B97F4A7C15ull + 77; s[1] = s[0] ^ 0xD1B54A32D192ED03ull;
    n = atol(argv[3]);
    fib[0] = 1; fib[1] = 2; for (nf = 2; nf < 90; nf++) fib[nf] = fib[nf - 1] + fib[nf - 2];
    signal(SIGFPE, onsig); signal(SIGABRT, onsig); signal(SIGSEGV, onsig);
    fprintf(o, "{\"id\":0,\"hdr\":true}\n");
    for (i = 0; i < n; i++) {
        uint64_t k, m, r; int which = (int)(rnd() % 10), crashed;
        switch (which) {
        case 0: case 1: k = rnd() % 4096; break;
        case 2: k = fib[rnd() % 90] + (rnd() % 3) - 1; break;       /* worst cases of the golden-ratio fraction */
        case 3: k = (1ull << (rnd() % 64)) + (rnd() % 3) - 1; break;
        case 4: k = rnd() % (1u << 25); break;
        case 5: k = 987 + 1597 * (rnd() % 64); break;
        default: k = rnd() >> (rnd() % 64); break;
        }
        switch ((int)(rnd() % 4)) {
        case 0: m = ms_fixed[rnd() % (sizeof ms_fixed / sizeof ms_fixed[0])]; break;
        case 1: m = 1 + rnd() % 64; break;
        case 2: m = (1ull << (rnd() % 64)) + (rnd() % 3) - 1; if (m == 0) m = 1; break;
        default: m = rnd() >> (rnd() % 64); if (m == 0) m = 1; break;
        }
        for (j = 0; j < 2; j++) {
            int small = k < (1u << 30) && m < (1u << 30);
            crashed = sigsetjmp(jb, 1);
            r = 0;
            if (!crashed) r = j ? cstl_hash_mul((size_t)k, (size_t)m) : cstl_hash_div((size_t)k, (size_t)m);
            fprintf(o, "{\"id\":%ld,\"f\":\"%s\",\"crash\":%s,", ++id, j ? "mul" : "div", crashed ? "true" : "false");
            limbs(o, "k", k); fputc(',', o); limbs(o, "m", m); fputc(',', o); limbs(o, "r", r);
            fprintf(o, ",\"small\":%s,\"ks\":%llu,\"ms\":%llu,\"rs\":%llu}\n", small ? "true" : "false",
                    small ? (unsigned long long)k : 0ull, small ? (unsigned long long)m : 0ull, small && r < (1u << 30) ? (unsigned long long)r : 0ull);
        }
    }
    fclose(o);
    printf("{\"calls\":%ld}\n", id);
    return 0;
}
