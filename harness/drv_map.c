/*
 * drv_map.c — conformance driver for src/map.c.
 * scope args: <nk> <faults 0|1> [probes 0|1]
 * ops: 0 insert(k, ko, vo, fail) 1 find(k) 2 erase(k) 3 erasei(k) (iterator from a find) 4 clear(cb) 5 size
 * Key objects: KO[k][1], KO[k][2] compare equal (same value k) but are distinct
 * objects; the compare function compares values, not addresses (reverse order
 * of addresses).  The private node {key, val, rbnode} is read through a mirror.
 */
#include "alloc.h"
#include "cstl/map.h"

#define MAXK 64
struct node_mirror { const void *key; void *val; struct cstl_rbtree_node n; };
struct kobj { int tag; int value; };
static struct kobj KO[MAXK + 1][3];
static int VO[3];
static int FAULTS, PROBES = 1;
static cstl_map_t M;

/* Keys are whatever the caller's comparison function makes of a const void *: the NULL pointer is a key like any
 * other.  Object #1 of model key NULLK is the NULL pointer (object #2 of that key is an ordinary object with the
 * same value), whenever the scope has that many keys. */
#define NULLK 2
static int NK;
static int kval(const void *k) { return k ? ((const struct kobj *)k)->value : 1000 - (NK + 1 - NULLK); }
static int kcmp(const void *a, const void *b, void *p) { e_check_priv(p); return e_cmp3(kval(a), kval(b)); }
static int ko_id(const void *k) { const struct kobj *o = k; if (!k) return 0; if (o < &KO[0][0] || o > &KO[MAXK][2]) return -1; return (int)((o - &KO[0][0]) % 3); }
static int k_of(const void *k) { const struct kobj *o = k; if (!k) return 0; if (o < &KO[0][0] || o > &KO[MAXK][2]) return -1; return (int)((o - &KO[0][0]) / 3); }
/* Values are whatever the caller stores: value object #1 is the NULL pointer (a map used as a set), #2 an ordinary
 * object.  An entry's value is therefore named 1 for NULL; only the end iterator has "no value" (0). */
static void *vptr(int j) { return j == 1 ? NULL : (void *)&VO[j]; }
static int vo_id(const void *v) { const int *o = v; if (!v) return 0; if (o < &VO[0] || o > &VO[2]) return -1; return (int)(o - &VO[0]); }
static int vo_of_entry(const void *v) { return v ? vo_id(v) : 1; }

static void drv_setup(int argc, char **argv)
{
    int k, j;
    if (argc < 2) { fprintf(stderr, "drv_map: scope = <nk> <faults> [probes]\n"); exit(64); }
    NK = atoi(argv[0]); FAULTS = atoi(argv[1]);
    if (argc > 2) PROBES = atoi(argv[2]);
    if (NK > MAXK) exit(64);
    /* key values are NOT in address order: value = NK + 1 - k' for the object stored at index k' */
    for (k = 0; k <= MAXK; k++) for (j = 0; j < 3; j++) { KO[k][j].tag = j; KO[k][j].value = 1000 - k; }
}
static void drv_header(jb_t *b) { jb_printf(b, "\"nk\":%d", NK); }
static int nclr;            /* clears so far on the path from reset: what follows a clear must behave like a fresh map (C15) */
static void drv_reset(void) { a_reset(); cstl_map_init(&M, kcmp, E_PRIV); nclr = 0; }
static void drv_aborted(void) { a_end(); }
/* model key k (1..NK, ascending order of comparison) is stored in KO[NK + 1 - k] (descending addresses) */
static struct kobj *kobj(int k, int j) { return (k == NULLK && j == 1 && NK >= NULLK) ? NULL : &KO[NK + 1 - k][j]; }
static int model_k(const void *key) { int i = k_of(key); if (!key && NK >= NULLK) return NULLK; return i <= 0 ? i : NK + 1 - i; }   /* key of a stored entry */
static int ko_of_entry(const void *key) { return (!key && NK >= NULLK) ? 1 : ko_id(key); }

/* entry: the iterator names an entry (its key and value may both be NULL pointers); otherwise it is the end iterator,
 * which has neither key nor value */
static void it_json(jb_t *res, const cstl_map_iterator_t *i, int entry)
{
    if (entry) jb_printf(res, ",\"it\":[%d,%d]", ko_of_entry(i->key), vo_of_entry(i->val));
    else jb_printf(res, ",\"it\":[%d,%d]", ko_id(i->key), vo_id(i->val));
}
static void clear_cb(void *ip, void *p)
{
    cstl_map_iterator_t *i = ip;
    e_check_priv(p);
    ev_add("[\"c\",%d,%d,%d]", model_k(i->key), ko_of_entry(i->key), vo_of_entry(i->val));
}
static void drv_apply(const vop_t *op, jb_t *res)
{
    const int *a = op->a;
    cstl_map_iterator_t it; int r;
    memset(&it, 0x5a, sizeof it);
    jb_printf(res, ",\"nclr\":%d", nclr);
    if (op->k == 4) nclr++;
    switch (op->k) {
    case 0:
        a_begin(a[3] ? 1UL : 0UL); r = cstl_map_insert(&M, kobj(a[0], a[1]), vptr(a[2]), a[4] ? NULL : &it); a_end();
        jb_printf(res, ",\"ret\":%d", r); it_json(res, &it, r >= 0);
        break;
    case 1: a_begin(0); cstl_map_find(&M, kobj(a[0], 1), &it); a_end(); jb_puts(res, ",\"ret\":0"); it_json(res, &it, !cstl_map_iterator_eq(&it, cstl_map_iterator_end(&M))); break;
    case 2: a_begin(0); r = cstl_map_erase(&M, kobj(a[0], 2), a[4] ? NULL : &it); a_end(); jb_printf(res, ",\"ret\":%d", r); it_json(res, &it, r == 0); break;
    case 3: {
        cstl_map_iterator_t f;
        a_begin(0);
        cstl_map_find(&M, kobj(a[0], 1), &f);
        if (cstl_map_iterator_eq(&f, cstl_map_iterator_end(&M))) { r = -1; it = *cstl_map_iterator_end(&M); }
        else { it = f; cstl_map_erase_iterator(&M, &f); r = 0; }
        a_end();
        jb_printf(res, ",\"ret\":%d", r); it_json(res, &it, r == 0);
        break;
    }
    case 4: a_begin(0); cstl_map_clear(&M, a[0] ? clear_cb : NULL, E_PRIV); a_end(); jb_puts(res, ",\"ret\":0"); break;
    case 5: jb_puts(res, ",\"ret\":"); jb_size(res, cstl_map_size(&M)); break;
    default: jb_puts(res, ",\"ret\":0");
    }
}
static void drv_opjson(const vop_t *op, jb_t *b)
{
    const int *a = op->a;
    switch (op->k) {
    case 0: jb_printf(b, "\"op\":\"insert\",\"k\":%d,\"ko\":%d,\"vo\":%d,\"fail\":%s,\"noit\":%s", a[0], a[1], a[2], a[3] ? "true" : "false", a[4] ? "true" : "false"); break;
    case 1: jb_printf(b, "\"op\":\"find\",\"k\":%d", a[0]); break;
    case 2: jb_printf(b, "\"op\":\"erase\",\"k\":%d,\"noit\":%s", a[0], a[4] ? "true" : "false"); break;
    case 3: jb_printf(b, "\"op\":\"erasei\",\"k\":%d", a[0]); break;
    case 4: jb_printf(b, "\"op\":\"clear\",\"cb\":%s", a[0] ? "true" : "false"); break;
    case 5: jb_puts(b, "\"op\":\"size\""); break;
    default: jb_printf(b, "\"op\":\"?%d\"", op->k);
    }
}
static int drv_terminal(const vop_t *op) { (void)op; return 0; }

/* ---- state: the tree of private nodes, slot = model key value ---- */
static struct node_mirror *slot[MAXK + 1]; static int malformed;
static struct node_mirror *node_of_bn(const struct cstl_bintree_node *bn)
{
    return (struct node_mirror *)((char *)bn - offsetof(struct node_mirror, n.n));
}
static int slot_of_bn(const struct cstl_bintree_node *bn)
{
    struct node_mirror *nm; a_blk_t *b; int k;
    if (!bn) return 0;
    nm = node_of_bn(bn);
    b = a_find(nm);
    if (!b || !b->live) { malformed = 1; return -1; }
    k = model_k(nm->key);
    if (k < 1 || k > NK) { malformed = 1; return -1; }
    return k;
}
static void mark(const struct cstl_bintree_node *bn, int depth)
{
    int k;
    if (!bn || malformed) return;
    k = slot_of_bn(bn);
    if (k <= 0 || slot[k] || depth > NK + 1) { malformed = 1; return; }
    slot[k] = node_of_bn(bn);
    mark(bn->l, depth + 1); mark(bn->r, depth + 1);
}
static void drv_ser(jb_t *b)
{
    int f, k; static const char *nm[4] = { "p", "l", "r", "c" };
    memset(slot, 0, sizeof slot); malformed = 0;
    mark(M.t.t.root, 0);
    jb_printf(b, "{\"root\":%d,\"size\":", malformed ? 0 : slot_of_bn(M.t.t.root)); jb_size(b, M.t.t.size);
    for (f = 0; f < 4; f++) {
        jb_printf(b, ",\"%s\":[", nm[f]);
        for (k = 1; k <= NK; k++) {
            int v = 0;
            if (slot[k] && !malformed) {
                struct cstl_bintree_node *bn = &slot[k]->n.n;
                v = f == 0 ? slot_of_bn(bn->p) : f == 1 ? slot_of_bn(bn->l) : f == 2 ? slot_of_bn(bn->r) : (slot[k]->n.c == CSTL_RBTREE_COLOR_B);
            }
            jb_printf(b, "%s%d", k > 1 ? "," : "", v);
        }
        jb_puts(b, "]");
    }
    jb_puts(b, ",\"ko\":[");
    for (k = 1; k <= NK; k++) jb_printf(b, "%s%d", k > 1 ? "," : "", slot[k] && !malformed ? ko_of_entry(slot[k]->key) : 0);
    jb_puts(b, "],\"vo\":[");
    for (k = 1; k <= NK; k++) jb_printf(b, "%s%d", k > 1 ? "," : "", slot[k] && !malformed ? vo_of_entry(slot[k]->val) : 0);
    jb_printf(b, "],\"nlive\":%d,\"damage\":%s,\"bad\":%s}", a_live_count(), a_check() ? "true" : "false", malformed ? "true" : "false");
}
#define ADD(K, A0, A1, A2, A3) do { vop_t o_ = { K, { A0, A1, A2, A3 } }; ops[no++] = o_; } while (0)
static int drv_enum(vop_t *ops, int max)
{
    int no = 0, k, ko, vo, f;
    (void)max;
    for (k = 1; k <= NK; k++) {
        for (ko = 1; ko <= 2; ko++) for (vo = 1; vo <= 2; vo++) for (f = 0; f < (FAULTS ? 2 : 1); f++) {
            ADD(0, k, ko, vo, f);
            if (PROBES) { vop_t o_ = { 0, { k, ko, vo, f, 1 } }; ops[no++] = o_; }     /* no iterator wanted back */
        }
        ADD(2, k, 0, 0, 0);
        if (PROBES) { vop_t o_ = { 2, { k, 0, 0, 0, 1 } }; ops[no++] = o_; }
        if (PROBES) { ADD(1, k, 0, 0, 0); ADD(3, k, 0, 0, 0); }
    }
    ADD(4, 1, 0, 0, 0);
    if (PROBES) { ADD(4, 0, 0, 0, 0); ADD(5, 0, 0, 0, 0); }
    return no;
}
static int drv_random(unsigned long (*rnd)(void), vop_t *op)
{
    unsigned long r = rnd() % 100; int k = 1 + (int)(rnd() % (unsigned)NK);
    if (a_nblk > A_MAX - 8) return 0;
    if (r < 45) { op->k = 0; op->a[0] = k; op->a[1] = 1 + (int)(rnd() & 1); op->a[2] = 1 + (int)(rnd() & 1); op->a[3] = FAULTS && rnd() % 8 == 0; op->a[4] = rnd() % 4 == 0; }
    else if (r < 60) { op->k = 1; op->a[0] = k; }
    else if (r < 80) { op->k = 2; op->a[0] = k; op->a[4] = rnd() % 4 == 0; }
    else if (r < 92) { op->k = 3; op->a[0] = k; }
    else if (r < 94) { op->k = 4; op->a[0] = (int)(rnd() & 1); }
    else { op->k = 5; }
    return 1;
}
int main(int argc, char **argv) { return e_main(argc, argv); }
