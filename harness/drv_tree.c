/*
 * drv_tree.c — conformance driver for src/bintree.c and src/rbtree.c.
 *
 * scope args:  <rb 0|1> <keys e.g. 112233> <swap 0|1> [probes 0|1|2]
 *   probes 2: every read-only entry point with every stop position in every state
 *          1: find/height/clear and foreach with stop in {never, 1st, middle, last}
 *          0: state-changing operations only
 *
 * ops:  0 ins(n, hinted)   1 era(k)   2 find(k)   3 foreach(dir, stopAt)
 *       4 clear(poison, nest)    5 height   6 swap (with the second tree object);  foreach / clear with nest: the
 *       callback walks the same tree (foreach) or walks, clears and rebuilds a tree the element owns (clear)
 *
 * Element identity: index in the driver's pool (1..N); a pointer that is not
 * a pool element is logged as -1 ("alien").
 */
#include "engine.h"
#include "cstl/rbtree.h"

#define MAXN 512
/* two node members: the second tree object is configured differently in every respect (node member, comparison
 * function, private pointer), so swapping the trees has to carry the configuration along with the contents */
struct el { int key; int id; struct cstl_rbtree_node n; long pad; struct cstl_rbtree_node n2; };
static struct el pool[MAXN + 1];
static int N, RB, SWAP, MAXK, PROBES = 2;
static struct cstl_rbtree T[2];
static int cur;
static unsigned char held[MAXN + 1];

static int cmp(const void *a, const void *b, void *p)
{
    e_check_priv(p);
    return e_cmp3(((const struct el *)a)->key, ((const struct el *)b)->key);
}
static int cmp2(const void *a, const void *b, void *p)
{
    e_check_priv2(p);
    return e_cmp3(((const struct el *)a)->key, ((const struct el *)b)->key);
}
static int id_of_el(const void *e)
{
    uintptr_t d;
    if (!e) return 0;
    if ((uintptr_t)e < (uintptr_t)&pool[1] || (uintptr_t)e > (uintptr_t)&pool[N]) return -1;
    d = (uintptr_t)e - (uintptr_t)&pool[0];
    if (d % sizeof(struct el)) return -1;
    return (int)(d / sizeof(struct el));
}
static int id_of_bn(const struct cstl_bintree_node *bn)
{
    if (!bn) return 0;
    return id_of_el((const char *)bn - T[cur].t.off);       /* elements hang on the member the current tree is configured with */
}
static struct cstl_bintree *BT(void) { return &T[cur].t; }

/* which: 0 = node member n, cmp, E_PRIV; 1 = node member n2, cmp2, E_PRIV2 */
static void tree_init(struct cstl_rbtree *t, int which)
{
#ifdef USE_INITIALIZER   /* the CSTL_*_INITIALIZER macros instead of the init functions */
    if (RB) {
        struct cstl_rbtree x = CSTL_RBTREE_INITIALIZER(struct el, n, cmp, E_PRIV), y = CSTL_RBTREE_INITIALIZER(struct el, n2, cmp2, E_PRIV2);
        *t = which ? y : x;
    } else {
        struct cstl_bintree x = CSTL_BINTREE_INITIALIZER(struct el, n.n, cmp, E_PRIV), y = CSTL_BINTREE_INITIALIZER(struct el, n2.n, cmp2, E_PRIV2);
        memset(t, 0, sizeof *t); t->t = which ? y : x;
    }
    return;
#endif
    if (RB) { if (which) cstl_rbtree_init(t, cmp2, E_PRIV2, offsetof(struct el, n2)); else cstl_rbtree_init(t, cmp, E_PRIV, offsetof(struct el, n)); }
    else {
        memset(t, 0, sizeof *t);
        if (which) cstl_bintree_init(&t->t, cmp2, E_PRIV2, offsetof(struct el, n2.n)); else cstl_bintree_init(&t->t, cmp, E_PRIV, offsetof(struct el, n.n));
    }
}
/* the configuration the current tree object carries: 1 / 2 as above, -1 = a mixture */
static int cfg_of(const struct cstl_rbtree *t)
{
    size_t o1 = offsetof(struct el, n.n), o2 = offsetof(struct el, n2.n);
    if (t->t.off == o1 && t->t.cmp.func == cmp && t->t.cmp.priv == E_PRIV && (!RB || t->off == offsetof(struct el, n))) return 1;
    if (t->t.off == o2 && t->t.cmp.func == cmp2 && t->t.cmp.priv == E_PRIV2 && (!RB || t->off == offsetof(struct el, n2))) return 2;
    return -1;
}

static void drv_setup(int argc, char **argv)
{
    int i; const char *keys;
    if (argc < 3) { fprintf(stderr, "drv_tree: scope = <rb> <keys> <swap>\n"); exit(64); }
    RB = atoi(argv[0]); keys = argv[1]; SWAP = atoi(argv[2]);
    N = keys[0] == '=' ? atoi(keys + 1) : (int)strlen(keys);      /* "=n": the keys 1..n */
    if (argc > 3) PROBES = atoi(argv[3]);
    if (N > MAXN) exit(64);
    for (i = 1; i <= N; i++) {
        pool[i].key = keys[0] == '=' ? i : keys[i - 1] - '0'; pool[i].id = i;
        if (pool[i].key > MAXK) MAXK = pool[i].key;
    }
}
static void drv_header(jb_t *b)
{
    int i;
    jb_printf(b, "\"N\":%d,\"rb\":%s,\"key\":[", N, RB ? "true" : "false");
    for (i = 1; i <= N; i++) jb_printf(b, "%s%d", i > 1 ? "," : "", pool[i].key);
    jb_puts(b, "]");
}
static void drv_reset(void)
{
    int i;
    tree_init(&T[0], 0); tree_init(&T[1], 1); cur = 0;
    for (i = 0; i <= N; i++) { memset(&pool[i].n, 0, sizeof pool[i].n); memset(&pool[i].n2, 0, sizeof pool[i].n2); held[i] = 0; }
}

/* ---- callbacks ---- */
static int cb_count, cb_stop;
/* nested walks: a visit function may itself walk the tree it is called from (traversal is a const operation), and
 * the elements of a tree may own trees of their own which the clear callback walks and clears.  nw = smallest /
 * largest number of elements a nested walk saw and whether every one of them came in order */
static int nest, nw_min, nw_max, nw_ok, nw_n, nw_last, nw_rev, nin;
static struct cstl_rbtree IN; static struct el inner[4];
static int nest_visit(const void *e, cstl_bintree_visit_order_t order, void *p)
{
    const struct el *x = e;
    e_check_priv(p);
    if (order == CSTL_BINTREE_VISIT_ORDER_MID || order == CSTL_BINTREE_VISIT_ORDER_LEAF) {
        if (nw_n > 0 && (nw_rev ? x->key > nw_last : x->key < nw_last)) nw_ok = 0;
        nw_last = x->key; nw_n++;
    }
    return 0;
}
static void nested_walk(struct cstl_rbtree *t, int rev)
{
    size_t mn, mx;
    nw_n = 0; nw_rev = rev;
    if (RB) { cstl_rbtree_foreach(t, nest_visit, E_PRIV, rev ? CSTL_BINTREE_FOREACH_DIR_REV : CSTL_BINTREE_FOREACH_DIR_FWD); cstl_rbtree_height(t, &mn, &mx); }
    else { cstl_bintree_foreach(&t->t, nest_visit, E_PRIV, rev ? CSTL_BINTREE_FOREACH_DIR_REV : CSTL_BINTREE_FOREACH_DIR_FWD); cstl_bintree_height(&t->t, &mn, &mx); }
    if (nw_min < 0 || nw_n < nw_min) nw_min = nw_n;
    if (nw_n > nw_max) nw_max = nw_n;
}
static void inner_fill(void)
{
    int i;
    for (i = 1; i <= 3; i++) { inner[i].key = i; inner[i].id = -i; if (RB) cstl_rbtree_insert(&IN, &inner[i], NULL); else cstl_bintree_insert(&IN.t, &inner[i], NULL); }
}
static void inner_clear_cb(void *e, void *p)
{
    e_check_priv(p);
    if ((struct el *)e >= &inner[1] && (struct el *)e <= &inner[3]) nin++; else nin += 1000;
    memset(&((struct el *)e)->n, 0xA5, sizeof(struct cstl_rbtree_node));
}
static int visit_dir;
static int visit_cb(const void *e, cstl_bintree_visit_order_t order, void *p)
{
    e_check_priv(p);
    cb_count++;
    if (nest) nested_walk(&T[cur], !visit_dir);
    ev_add("[%d,%d]", id_of_el(e), (int)order);
    return (cb_stop && cb_count == cb_stop) ? e_stopval(cb_stop) : 0;
}
static int clear_poison;
static void clear_cb(void *e, void *p)
{
    int id = id_of_el(e);
    e_check_priv(p);
    cb_count++;
    ev_add("%d", id);
    if (nest) {          /* the element owns a tree: look through it, dispose of it, (re)build it for the next one */
        nested_walk(&IN, cb_count & 1);
        if (RB) cstl_rbtree_clear(&IN, inner_clear_cb, E_PRIV); else cstl_bintree_clear(&IN.t, inner_clear_cb, E_PRIV);
        inner_fill();
    }
    if (id > 0) {
        held[id] = 0;
        /* the element now belongs to the callee: scribble over its links */
        if (clear_poison) { memset(&pool[id].n, 0xA5, sizeof pool[id].n); memset(&pool[id].n2, 0xA5, sizeof pool[id].n2); }
    }
}

/* what find / erase are asked for: a stand-alone object carrying the key, or (alias) an element that is itself
 * held in the tree and has that key, when there is one */
static const struct el *probe_for(struct el *probe, int key, int alias)
{
    int i;
    memset(probe, 0, sizeof *probe); probe->key = key;
    if (alias) for (i = N; i >= 1; i--) if (held[i] && pool[i].key == key) return &pool[i];
    return probe;
}
static void drv_apply(const vop_t *op, jb_t *res)
{
    switch (op->k) {
    case 0: {
        struct el *e = &pool[op->a[0]]; void *hint = NULL;
        if (op->a[1]) {
            const void *par = NULL;
            if (RB) cstl_rbtree_find(&T[cur], e, &par); else cstl_bintree_find(BT(), e, &par);
            hint = (void *)par;
        }
        if (RB) cstl_rbtree_insert(&T[cur], e, hint); else cstl_bintree_insert(BT(), e, hint);
        held[op->a[0]] = 1;
        jb_puts(res, ",\"ret\":0");
        break;
    }
    case 1: {
        struct el probe; void *r; int id; const struct el *pp = probe_for(&probe, op->a[0], op->a[1]);
        r = RB ? cstl_rbtree_erase(&T[cur], pp) : cstl_bintree_erase(BT(), pp);
        id = id_of_el(r);
        if (id > 0) held[id] = 0;
        jb_printf(res, ",\"ret\":%d", id);
        break;
    }
    case 2: {
        struct el probe; const void *r, *par = (void *)&probe; const struct el *pp = probe_for(&probe, op->a[0], op->a[2]);
        r = RB ? cstl_rbtree_find(&T[cur], pp, op->a[1] ? NULL : &par) : cstl_bintree_find(BT(), pp, op->a[1] ? NULL : &par);
        jb_printf(res, ",\"ret\":%d,\"par\":%d", id_of_el(r), op->a[1] ? 0 : id_of_el(par));   /* a[1]: the parent is not asked for */
        break;
    }
    case 3: {
        int r;
        cb_count = 0; cb_stop = op->a[1]; nest = op->a[2]; nw_min = -1; nw_max = 0; nw_ok = 1; visit_dir = op->a[0];
        r = RB ? cstl_rbtree_foreach(&T[cur], visit_cb, E_PRIV, op->a[0] ? CSTL_BINTREE_FOREACH_DIR_REV : CSTL_BINTREE_FOREACH_DIR_FWD)
               : cstl_bintree_foreach(BT(), visit_cb, E_PRIV, op->a[0] ? CSTL_BINTREE_FOREACH_DIR_REV : CSTL_BINTREE_FOREACH_DIR_FWD);
        nest = 0;
        jb_printf(res, ",\"ret\":%d,\"nw\":[%d,%d,%d]", r, nw_min < 0 ? 0 : nw_min, nw_max, nw_ok);
        break;
    }
    case 4:
        cb_count = 0; clear_poison = op->a[0]; nest = op->a[1]; nw_min = -1; nw_max = 0; nw_ok = 1; nin = 0;
        if (nest) { tree_init(&IN, 0); inner_fill(); }
        if (RB) cstl_rbtree_clear(&T[cur], clear_cb, E_PRIV); else cstl_bintree_clear(BT(), clear_cb, E_PRIV);
        nest = 0;
        jb_printf(res, ",\"ret\":0,\"nw\":[%d,%d,%d],\"nin\":%d", nw_min < 0 ? 0 : nw_min, nw_max, nw_ok, nin);
        break;
    case 5: {
        size_t mn = 7777, mx = 7777;
        if (RB) cstl_rbtree_height(&T[cur], &mn, &mx); else cstl_bintree_height(BT(), &mn, &mx);
        jb_puts(res, ",\"ret\":0,\"min\":"); jb_size(res, mn);
        jb_puts(res, ",\"max\":"); jb_size(res, mx);
        break;
    }
    case 6:
        if (RB) cstl_rbtree_swap(&T[0], &T[1]); else cstl_bintree_swap(&T[0].t, &T[1].t);
        cur = 1 - cur;
        jb_puts(res, ",\"ret\":0");
        break;
    default:
        jb_puts(res, ",\"ret\":0");
    }
}

static void drv_opjson(const vop_t *op, jb_t *b)
{
    switch (op->k) {
    case 0: jb_printf(b, "\"op\":\"ins\",\"n\":%d,\"h\":%s", op->a[0], op->a[1] ? "true" : "false"); break;
    case 1: jb_printf(b, "\"op\":\"era\",\"k\":%d,\"alias\":%s", op->a[0], op->a[1] ? "true" : "false"); break;
    case 2: jb_printf(b, "\"op\":\"find\",\"k\":%d,\"nopar\":%s,\"alias\":%s", op->a[0], op->a[1] ? "true" : "false", op->a[2] ? "true" : "false"); break;
    case 3: jb_printf(b, "\"op\":\"foreach\",\"rev\":%s,\"stop\":%d,\"nest\":%s", op->a[0] ? "true" : "false", op->a[1], op->a[2] ? "true" : "false"); break;
    case 4: jb_printf(b, "\"op\":\"clear\",\"poison\":%s,\"nest\":%s", op->a[0] ? "true" : "false", op->a[1] ? "true" : "false"); break;
    case 5: jb_puts(b, "\"op\":\"height\""); break;
    case 6: jb_puts(b, "\"op\":\"swap\""); break;
    default: jb_printf(b, "\"op\":\"?%d\"", op->k);
    }
}
static int drv_terminal(const vop_t *op) { (void)op; return 0; }
static void drv_aborted(void) { }

/* ---- canonical state ---- */
static unsigned char member[MAXN + 1];
static int malformed;
static void mark(const struct cstl_bintree_node *bn, int depth)
{
    int id;
    if (!bn) return;
    id = id_of_bn(bn);
    if (id <= 0 || member[id] || depth > N + 1) { malformed = 1; return; }
    member[id] = 1;
    mark(bn->l, depth + 1);
    mark(bn->r, depth + 1);
}
static void drv_ser(jb_t *b)
{
    int f, i;
    static const char *nm[4] = { "p", "l", "r", "c" };
    struct cstl_bintree *bt = BT();
    memset(member, 0, sizeof member); malformed = 0;
    mark(bt->root, 0);
    jb_printf(b, "{\"root\":%d,\"size\":", id_of_bn(bt->root));
    jb_size(b, RB ? cstl_rbtree_size(&T[cur]) : cstl_bintree_size(bt));   /* the public accessor, not the field */
    jb_printf(b, ",\"cur\":%d,\"osize\":", cur);
    jb_size(b, T[1 - cur].t.size);
    jb_printf(b, ",\"oroot\":%d,\"cfg\":%d,\"bad\":%s", id_of_bn(T[1 - cur].t.root), cfg_of(&T[cur]), malformed ? "true" : "false");
    for (f = 0; f < 4; f++) {
        jb_printf(b, ",\"%s\":[", nm[f]);
        for (i = 1; i <= N; i++) {
            int v = 0;
            if (member[i] && !malformed) {
                /* the node member the current tree is configured with */
                struct cstl_bintree_node *bn = (struct cstl_bintree_node *)((char *)&pool[i] + bt->off);
                struct cstl_rbtree_node *rn = (struct cstl_rbtree_node *)((char *)bn - offsetof(struct cstl_rbtree_node, n));
                v = f == 0 ? id_of_bn(bn->p) : f == 1 ? id_of_bn(bn->l) : f == 2 ? id_of_bn(bn->r)
                    : (RB ? (rn->c == CSTL_RBTREE_COLOR_B) : 0);
            }
            jb_printf(b, "%s%d", i > 1 ? "," : "", v);
        }
        jb_puts(b, "]");
    }
    jb_puts(b, "}");
}

static int drv_enum(vop_t *ops, int max)
{
    int no = 0, n, h, k, d, j, sz = (int)BT()->size;
    (void)max;
    for (n = 1; n <= N; n++) if (!held[n]) for (h = 0; h < 2; h++) { vop_t o = { 0, { n, h } }; ops[no++] = o; }
    for (k = 1; k <= MAXK; k++) { vop_t o = { 1, { k } }, o2 = { 1, { k, 1 } }; ops[no++] = o; ops[no++] = o2; }   /* o2: asked for through a held element */
    if (PROBES) {
        for (k = 0; k <= MAXK + 1; k++) { vop_t o = { 2, { k } }, o2 = { 2, { k, 1 } }, o3 = { 2, { k, 0, 1 } }; ops[no++] = o; ops[no++] = o2; ops[no++] = o3; }
        for (d = 0; d < 2; d++) for (j = 0; j <= 3 * sz && j <= 2 * N; j++) {
            /* stop positions: never (0), and each callback index that can occur */
            vop_t o = { 3, { d, j } };
            if (PROBES < 2 && !(j == 0 || j == 1 || j == sz || j == 3 * sz - 1)) continue;
            ops[no++] = o;
            if (j == 0 || j == sz) { vop_t o2 = { 3, { d, j, 1 } }; ops[no++] = o2; }     /* the visit function walks the tree itself */
        }
        { vop_t o = { 5, { 0 } }; ops[no++] = o; }
        { vop_t o = { 4, { 1, 1 } }; ops[no++] = o; }                                   /* the elements own trees */
    }
    { vop_t o = { 4, { 1 } }; ops[no++] = o; }
    if (SWAP) { vop_t o = { 6, { 0 } }; ops[no++] = o; }
    return no;
}
static int drv_random(unsigned long (*rnd)(void), vop_t *op)
{
    unsigned long r = rnd() % 100;
    int sz = (int)BT()->size;
    if (r < 45 || sz == 0) {           /* insert a random absent element */
        int tries, n = 0;
        for (tries = 0; tries < 8; tries++) { n = 1 + (int)(rnd() % (unsigned)N); if (!held[n]) break; }
        if (held[n]) { op->k = 1; op->a[0] = pool[n].key; return 1; }
        op->k = 0; op->a[0] = n; op->a[1] = (int)(rnd() & 1);
    } else if (r < 85) { op->k = 1; op->a[0] = 1 + (int)(rnd() % (unsigned)MAXK); op->a[1] = (int)(rnd() & 1);
    } else if (r < 90) { op->k = 2; op->a[0] = (int)(rnd() % (unsigned)(MAXK + 2)); op->a[1] = (int)(rnd() & 1); op->a[2] = (int)(rnd() & 1);
    } else if (r < 95) { op->k = 3; op->a[0] = (int)(rnd() & 1); op->a[1] = (rnd() & 1) ? 0 : (int)(rnd() % (unsigned)(2 * sz + 1)); op->a[2] = rnd() % 3 == 0;
    } else if (r < 97) { op->k = 5;
    } else if (r < 98 && sz < 12) { op->k = 4; op->a[0] = 1; op->a[1] = (int)(rnd() & 1);
    } else if (SWAP) { op->k = 6; } else { op->k = 2; op->a[0] = 1; }
    return 1;
}

int main(int argc, char **argv) { return e_main(argc, argv); }
