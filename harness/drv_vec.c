/*
 * drv_vec.c — conformance driver for src/vector.c.
 * scope args: <esz> <hasx 0|1> <maxn> [swap 0|1]
 * size terms (a[0]=kind, a[1]=n):  0: n   1: SIZE_MAX - n   2: SIZE_MAX/esz + n
 * ops: 0 reserve(t, fail) 1 resize(t, fail) 2 shrink(fail) 3 clear 4 sort(algo)
 *      5 reverse 6 at(t) 7 swap 8 stat
 * Slot i of a vector carries the tag i+1 when it enters [0,count) (written by
 * the constructor, or by the driver when no constructor is configured); every
 * byte of the element encodes the tag so torn copies are visible.
 */
#include "alloc.h"
#include "cstl/vector.h"

static size_t ESZ; static int HASX, MAXN, SWAP;      /* HASX: 0 no callbacks, 1 constructor and destructor, 2 constructor only, 3 destructor only */
#define HASC (HASX == 1 || HASX == 2)
#define HASD (HASX == 1 || HASX == 3)
static struct cstl_vector V[2];
static int cur;

static void put_tag(unsigned char *p, int tag) { size_t j; for (j = 0; j < ESZ; j++) p[j] = (unsigned char)(tag + 31 * j); }
static int get_tag(const unsigned char *p)
{
    size_t j; int t = p[0];
    for (j = 1; j < ESZ; j++) if (p[j] != (unsigned char)(t + 31 * j)) return -2;
    return t;
}
static size_t term(const int *a)
{
    switch (a[0]) {
    case 1: return SIZE_MAX - (size_t)a[1];
    case 2: return SIZE_MAX / ESZ + (size_t)(long)a[1];
    case 3: return (size_t)1 << a[1];
    default: return (size_t)a[1];
    }
}
static void term_json(jb_t *b, const int *a)
{
    jb_printf(b, "\"t\":{\"k\":\"%s\",\"n\":%d}", a[0] == 1 ? "max" : a[0] == 2 ? "maxdiv" : a[0] == 3 ? "pow" : "n", a[1]);
}
static long slot_of(const void *e)
{
    const unsigned char *base = V[cur].elem.base;
    if (!base || (const unsigned char *)e < base) return -1;
    if (((const unsigned char *)e - base) % ESZ) return -1;
    return (long)(((const unsigned char *)e - base) / ESZ);
}
static void ctor(void *e, void *p) { long s = slot_of(e); e_check_priv(p); ev_add("[\"ctor\",%ld]", s); if (s >= 0) put_tag(e, (int)(s + 1)); }
static void dtor(void *e, void *p) { long s = slot_of(e); e_check_priv(p); ev_add("[\"dtor\",%ld]", s); if (s >= 0) memset(e, 0xEE, ESZ); }
static int cmp(const void *a, const void *b, void *p) { e_check_priv(p); return e_cmp3(*(const unsigned char *)a, *(const unsigned char *)b); }

static void drv_setup(int argc, char **argv)
{
    if (argc < 3) { fprintf(stderr, "drv_vec: scope = <esz> <hasx> <maxn> [swap]\n"); exit(64); }
    ESZ = (size_t)atoi(argv[0]); HASX = atoi(argv[1]); MAXN = atoi(argv[2]);
    if (argc > 3) SWAP = atoi(argv[3]);
}
static void drv_header(jb_t *b) { jb_printf(b, "\"esz\":%zu,\"hasx\":%d,\"maxn\":%d", ESZ, HASX, MAXN); }
static void vinit(struct cstl_vector *v)
{
#ifdef USE_INITIALIZER
    if (!HASX && ESZ == 4) { struct cstl_vector x = CSTL_VECTOR_INITIALIZER(uint32_t); *v = x; return; }
#endif
    if (HASX) cstl_vector_init_complex(v, ESZ, HASC ? ctor : NULL, HASD ? dtor : NULL, E_PRIV); else cstl_vector_init(v, ESZ);
}
static void drv_reset(void)
{
    a_reset(); vinit(&V[0]); cur = 0;
    /* the swap partner has another element size and the opposite constructor/destructor configuration:
     * a swap must carry the whole object over, configuration included */
    if (HASX) cstl_vector_init(&V[1], ESZ + 3); else cstl_vector_init_complex(&V[1], ESZ + 3, ctor, dtor, E_PRIV);
}
static void drv_aborted(void) { a_end(); }

static void fill_new(size_t from)
{
    struct cstl_vector *v = &V[cur]; size_t i;
    if (HASC || !v->elem.base) return;           /* without a constructor the caller initialises new elements */
    for (i = from; i < v->count && i < 100000; i++) put_tag((unsigned char *)v->elem.base + i * ESZ, (int)(i + 1));
}
static void drv_apply(const vop_t *op, jb_t *res)
{
    struct cstl_vector *v = &V[cur];
    const int *a = op->a;
    switch (op->k) {
    case 0: a_begin(a[2] ? 1UL : 0UL); cstl_vector_reserve(v, term(a)); a_end(); jb_puts(res, ",\"ret\":0"); break;
    case 1: { size_t old = v->count; a_begin(a[2] ? 1UL : 0UL); cstl_vector_resize(v, term(a)); a_end(); fill_new(old); jb_puts(res, ",\"ret\":0"); break; }
    case 2: a_begin(a[0] ? 1UL : 0UL); cstl_vector_shrink_to_fit(v); a_end(); jb_puts(res, ",\"ret\":0"); break;
    case 3: a_begin(0); cstl_vector_clear(v); a_end(); jb_puts(res, ",\"ret\":0"); break;
    case 4: a_begin(0); if (a[0] == (int)CSTL_SORT_ALGORITHM_DEFAULT) cstl_vector_sort(v, cmp, E_PRIV); else __cstl_vector_sort(v, cmp, E_PRIV, cstl_swap, (cstl_sort_algorithm_t)a[0]); a_end(); jb_puts(res, ",\"ret\":0"); break;
    case 5: a_begin(0); cstl_vector_reverse(v); a_end(); jb_puts(res, ",\"ret\":0"); break;
    case 6: {
        const unsigned char *p = cstl_vector_at(v, term(a));
        long off = (p && v->elem.base && p >= (unsigned char *)v->elem.base && p - (unsigned char *)v->elem.base < (1L << 30))
                   ? (long)(p - (unsigned char *)v->elem.base) : -1;
        jb_printf(res, ",\"ret\":%ld", off);
        break;
    }
    case 7: cstl_vector_swap(&V[0], &V[1]); cur = 1 - cur; jb_puts(res, ",\"ret\":0"); break;
    case 8: {
        size_t n = cstl_vector_size(v), c = cstl_vector_capacity(v);
        jb_printf(res, ",\"ret\":0,\"size\":%ld,\"capacity\":%ld,\"data\":%s", n < (1UL << 30) ? (long)n : -1L, c < (1UL << 30) ? (long)c : -1L,
                  cstl_vector_data(v) ? "true" : "false");
        break;
    }
    default: jb_puts(res, ",\"ret\":0");
    }
}
static void drv_opjson(const vop_t *op, jb_t *b)
{
    const int *a = op->a;
    switch (op->k) {
    case 0: jb_puts(b, "\"op\":\"reserve\","); term_json(b, a); jb_printf(b, ",\"fail\":%s", a[2] ? "true" : "false"); break;
    case 1: jb_puts(b, "\"op\":\"resize\","); term_json(b, a); jb_printf(b, ",\"fail\":%s", a[2] ? "true" : "false"); break;
    case 2: jb_printf(b, "\"op\":\"shrink\",\"fail\":%s", a[0] ? "true" : "false"); break;
    case 3: jb_puts(b, "\"op\":\"clear\""); break;
    case 4: jb_printf(b, "\"op\":\"sort\",\"algo\":%d", a[0]); break;
    case 5: jb_puts(b, "\"op\":\"reverse\""); break;
    case 6: jb_puts(b, "\"op\":\"at\","); term_json(b, a); break;
    case 7: jb_puts(b, "\"op\":\"swap\""); break;
    case 8: jb_puts(b, "\"op\":\"stat\""); break;
    default: jb_printf(b, "\"op\":\"?%d\"", op->k);
    }
}
static int drv_terminal(const vop_t *op) { (void)op; return 0; }
static long small(size_t v) { return v < ((size_t)1 << 30) ? (long)v : -1L; }
static void drv_ser(jb_t *b)
{
    struct cstl_vector *v = &V[cur], *o = &V[1 - cur];
    a_blk_t *blk = v->elem.base ? a_find(v->elem.base) : NULL;
    long bytes = blk && blk->live ? small(blk->n) : -1;
    int bad = 0; size_t i;
    if (v->elem.base && bytes < 0) bad = 1;
    if (v->elem.size != ESZ || (v->elem.xtor.cons != NULL) != (HASC != 0) || (v->elem.xtor.dest != NULL) != (HASD != 0)) bad = 1;
    if (o->elem.size != ESZ + 3 || (o->elem.xtor.cons != NULL) == (HASX != 0)) bad = 1;
    jb_printf(b, "{\"base\":%s,\"blk\":%ld,\"count\":%ld,\"cap\":%ld,\"tags\":[", v->elem.base ? "true" : "false",
              v->elem.base ? bytes : 0L, small(v->count), small(v->cap));
    if (v->elem.base && bytes >= 0 && v->count <= (size_t)bytes / ESZ)
        for (i = 0; i < v->count; i++) jb_printf(b, "%s%d", i ? "," : "", get_tag((unsigned char *)v->elem.base + i * ESZ));
    else if (v->count) bad = 1;
    jb_printf(b, "],\"cur\":%d,\"ocount\":%ld,\"obase\":%s,\"nlive\":%d,\"damage\":%s,\"bad\":%s}", cur, small(o->count),
              o->elem.base ? "true" : "false", a_live_count(), a_check() ? "true" : "false", bad ? "true" : "false");
}
#define ADD(K, A0, A1, A2) do { vop_t o_ = { K, { A0, A1, A2 } }; ops[no++] = o_; } while (0)
static int drv_enum(vop_t *ops, int max)
{
    int no = 0, n, f, k;
    (void)max;
    for (f = 0; f < 2; f++) {
        for (n = 0; n <= MAXN; n++) { ADD(0, 0, n, f); ADD(1, 0, n, f); }
        for (n = 0; n <= 1; n++) { ADD(0, 1, n, f); ADD(1, 1, n, f); }
        for (n = -1; n <= (ESZ > 1 ? 1 : 0); n++) { ADD(0, 2, n, f); ADD(1, 2, n, f); }   /* SIZE_MAX/1 + 1 is not a size_t */
        for (n = 61; n <= 63; n++) { ADD(0, 3, n, f); ADD(1, 3, n, f); }                   /* 2^61..2^63: byte counts that wrap to small values */
        ADD(2, f, 0, 0);
    }
    ADD(3, 0, 0, 0);
    for (k = 0; k < 4; k++) ADD(4, k, 0, 0);
    ADD(4, 99, 0, 0);
    ADD(5, 0, 0, 0);
    for (n = 0; n <= MAXN + 1; n++) ADD(6, 0, n, 0);
    ADD(6, 1, 0, 0); ADD(6, 1, 1, 0);
    for (n = -1; n <= (ESZ > 1 ? 1 : 0); n++) ADD(6, 2, n, 0);
    for (n = 61; n <= 63; n++) ADD(6, 3, n, 0);        /* indexes whose byte offset wraps back into the buffer */
    if (SWAP) ADD(7, 0, 0, 0);
    ADD(8, 0, 0, 0);
    return no;
}
static int drv_random(unsigned long (*rnd)(void), vop_t *op)
{
    unsigned long r = rnd() % 100; struct cstl_vector *v = &V[cur];
    int near = (int)v->count + (int)(rnd() % 5) - 2;
    if (near < 0) near = 0;
    if (near > MAXN) near = MAXN;
    op->a[2] = (rnd() % 8 == 0);
    if (r < 30) { op->k = 1; op->a[0] = 0; op->a[1] = (rnd() & 1) ? near : (int)(rnd() % (unsigned)(MAXN + 1)); }
    else if (r < 45) { op->k = 0; op->a[0] = 0; op->a[1] = (rnd() & 1) ? (int)v->cap + (int)(rnd() % 3) : (int)(rnd() % (unsigned)(MAXN + 1)); if (op->a[1] > MAXN) op->a[1] = MAXN; }
    else if (r < 52) { op->k = (int)(rnd() & 1); op->a[0] = 1 + (int)(rnd() & 1); op->a[1] = op->a[0] == 1 ? (int)(rnd() & 1) : (int)(rnd() % (ESZ > 1 ? 3 : 2)) - 1; }
    else if (r < 60) { op->k = 2; op->a[0] = (rnd() % 4 == 0); op->a[2] = 0; }
    else if (r < 63) { op->k = 3; }
    else if (r < 75) { op->k = 4; op->a[0] = (rnd() % 6 == 0) ? 99 : (int)(rnd() % 4); }
    else if (r < 82) { op->k = 5; }
    else if (r < 92) { op->k = 6; op->a[0] = 0; op->a[1] = (int)(rnd() % (v->count + 2)); op->a[2] = 0; if (rnd() % 10 == 0) { op->a[0] = 1; op->a[1] = 0; } }
    else if (r < 95 && SWAP) { op->k = 7; }
    else { op->k = 8; }
    return 1;
}
int main(int argc, char **argv) { return e_main(argc, argv); }
