/*
 * alloc.h — link-time allocator interposer (gcc -Wl,--wrap=malloc,--wrap=realloc,
 * --wrap=calloc,--wrap=free) used by the drivers as an observation channel:
 *
 *   - every allocator call the library makes while a_track is set becomes an
 *     event  ["alloc",id,size] / ["realloc",oldid,newid,size] / ["free",id] /
 *     ["allocfail",size] / ["dfree",id] / ["badfree"]  in the record's "ev" list
 *   - calls can be made to fail by ordinal (a_failmask, bit i = i-th
 *     allocation request of the current operation)
 *   - absurd sizes (>= 2^40) are refused deterministically, like a real
 *     allocator would, and logged as allocfail
 *   - blocks carry guard bytes before and after; a_check() reports damage
 *   - freed blocks are quarantined (filled with 0xDD) until a_reset(), so
 *     a read after free sees poison and a double free is observed, not fatal
 */
#ifndef VERIF_ALLOC_H
#define VERIF_ALLOC_H
#include "engine.h"

#define A_MAX   4096
#define A_GUARD 32
typedef struct { unsigned char *raw; size_t n; int live; int id; } a_blk_t;
static a_blk_t a_blk[A_MAX];
static int a_nblk;
static int a_track;
static unsigned long a_failmask;
static int a_ord;
static int a_damage;       /* set when a guard was found overwritten */
static int a_nextid;

#define a_log ev_add
/* optional translation hook: called instead of the default event logging with
 * kind in {"alloc","free","allocfail","realloc"} and the user pointers involved */
static void (*a_hook)(const char *kind, void *oldp, void *newp, size_t n);
static a_blk_t *a_find(const void *p)
{
    int i;
    for (i = a_nblk - 1; i >= 0; i--)
        if (a_blk[i].raw && a_blk[i].raw + A_GUARD == (const unsigned char *)p) return &a_blk[i];
    return NULL;
}
/* block containing address p (live or quarantined); *off = offset into it */
static a_blk_t *a_containing(const void *p, long *off)
{
    int i;
    for (i = a_nblk - 1; i >= 0; i--) {
        unsigned char *b = a_blk[i].raw;
        if (b && (const unsigned char *)p >= b + A_GUARD && (const unsigned char *)p <= b + A_GUARD + a_blk[i].n) {
            if (off) *off = (long)((const unsigned char *)p - (b + A_GUARD));
            return &a_blk[i];
        }
    }
    return NULL;
}
static int a_guard_ok(const a_blk_t *b)
{
    size_t i;
    for (i = 0; i < A_GUARD; i++) if (b->raw[i] != 0xC5) return 0;
    for (i = 0; i < A_GUARD; i++) if (b->raw[A_GUARD + b->n + i] != 0xC5) return 0;
    return 1;
}
/* returns number of damaged blocks (checks quarantined blocks for writes after free too) */
static int a_check(void)
{
    int i, bad = 0; size_t j;
    for (i = 0; i < a_nblk; i++) {
        if (!a_blk[i].raw) continue;
        if (!a_guard_ok(&a_blk[i])) bad++;
        else if (!a_blk[i].live) {
            for (j = 0; j < a_blk[i].n; j++) if (a_blk[i].raw[A_GUARD + j] != 0xDD) { bad++; break; }
        }
    }
    if (bad) a_damage = 1;
    return bad;
}
static int a_live_count(void)
{
    int i, n = 0;
    for (i = 0; i < a_nblk; i++) if (a_blk[i].raw && a_blk[i].live) n++;
    return n;
}
static void a_reset(void)
{
    int i;
    for (i = 0; i < a_nblk; i++) if (a_blk[i].raw) { __real_free(a_blk[i].raw); a_blk[i].raw = NULL; }
    a_nblk = 0; a_nextid = 1; a_damage = 0; a_failmask = 0; a_ord = 0; a_track = 0;
}
static void a_begin(unsigned long failmask) { a_failmask = failmask; a_ord = 0; a_track = 1; }
static void a_end(void) { a_track = 0; }

static a_blk_t *a_new(size_t n)
{
    a_blk_t *b;
    if (a_nblk >= A_MAX) return NULL;
    b = &a_blk[a_nblk];
    b->raw = __real_malloc(n + 2 * A_GUARD);
    if (!b->raw) return NULL;
    memset(b->raw, 0xC5, A_GUARD);
    memset(b->raw + A_GUARD, 0xAB, n);
    memset(b->raw + A_GUARD + n, 0xC5, A_GUARD);
    b->n = n; b->live = 1; b->id = a_nextid++;
    a_nblk++;
    return b;
}
static int a_should_fail(size_t n)
{
    int fail = (a_failmask >> a_ord) & 1;
    a_ord++;
    if (n >= ((size_t)1 << 40)) fail = 1;
    return fail;
}

void *__wrap_malloc(size_t n)
{
    a_blk_t *b;
    if (!a_track) return __real_malloc(n);
    a_track = 0;
    if (a_should_fail(n)) { if (a_hook) a_hook("allocfail", NULL, NULL, n); else a_log("[\"allocfail\",\"%zx\"]", n); a_track = 1; return NULL; }
    b = a_new(n);
    if (b) { if (a_hook) a_hook("alloc", NULL, b->raw + A_GUARD, n); else a_log("[\"alloc\",%d,%zu]", b->id, n); }
    a_track = 1;
    return b ? b->raw + A_GUARD : NULL;
}
void *__wrap_calloc(size_t a, size_t s)
{
    void *p;
    if (!a_track) return __real_calloc(a, s);
    if (s && a > (size_t)-1 / s) { a_track = 0; a_log("[\"allocfail\",\"calloc-overflow\"]"); a_track = 1; return NULL; }
    p = __wrap_malloc(a * s);
    if (p) memset(p, 0, a * s);
    return p;
}
void __wrap_free(void *p)
{
    a_blk_t *b;
    if (!p) return;
    b = a_find(p);
    if (!b) {
        if (a_track) { a_track = 0; a_log("[\"badfree\"]"); a_damage = 1; a_track = 1; return; }
        __real_free(p); return;
    }
    {
        int t = a_track; a_track = 0;
        if (!b->live) { a_log("[\"dfree\",%d]", b->id); a_damage = 1; a_track = t; return; }
        if (!a_guard_ok(b)) a_damage = 1;
        b->live = 0;
        memset(b->raw + A_GUARD, 0xDD, b->n);
        if (a_hook) a_hook("free", p, NULL, b->n); else a_log("[\"free\",%d]", b->id);
        a_track = t;
    }
}
void *__wrap_realloc(void *p, size_t n)
{
    a_blk_t *b, *nb; int t;
    if (!a_track && !(p && a_find(p))) return __real_realloc(p, n);
    if (!p) return __wrap_malloc(n);
    t = a_track; a_track = 0;
    b = a_find(p);
    if (!b || !b->live) { a_log("[\"badrealloc\"]"); a_damage = 1; a_track = t; return NULL; }
    if (a_should_fail(n)) { a_log("[\"allocfail\",\"%zx\"]", n); a_track = t; return NULL; }
    nb = a_new(n);
    if (!nb) { a_track = t; return NULL; }
    memcpy(nb->raw + A_GUARD, b->raw + A_GUARD, n < b->n ? n : b->n);
    if (!a_guard_ok(b)) a_damage = 1;
    b->live = 0;
    memset(b->raw + A_GUARD, 0xDD, b->n);
    a_log("[\"realloc\",%d,%d,%zu]", b->id, nb->id, n);
    a_track = t;
    return nb->raw + A_GUARD;
}
#endif
