/*
 * drv_str.c — conformance driver for src/_string.c / src/string.c over src/vector.c.
 * Compile with -DWIDE for cstl_wstring (wchar_t), without for cstl_string (char).
 * scope args: <maxlen> [probes 0|1]
 * Characters are logged as 0 (NUL), 1 ('a'), 2 ('b'), -1 (anything else).
 * Size terms (kind, n): 0: n, 1: SIZE_MAX - n.
 * Partner strings are temporaries built from a literal id with set_str
 * (0: freshly initialised object).  Literal table (terminators included):
 *   1 ""  2 "a"  3 "b"  4 "ab"  5 "ba"  6 "aab"  7 {'a',NUL,'b',NUL}
 * ops (k: args):
 *   0 setstr(lit) 1 insch(posT,cntT,c) 2 appch(cntT,c) 3 insstrn(posT,lit,cntT) 4 insstr(posT,lit)
 *   5 appstr(lit) 6 appstrn(lit,cntT) 7 ins(posT,lit) 8 app(lit) 9 erase(posT,cntT)
 *   10 resize(t) 11 reserve(t) 12 clear 13 swap(lit) 14 substr(posT,cntT,lit) 15 at(t)
 *   16 findch(c,posT) 17 findstr(lit,posT) 18 find(lit,posT) 19 cmpstr(lit) 20 cmp(lit) 21 stat
 * Terms are packed in one int: kind*1000 + n.   a[5] = 1: the next allocation fails.
 */
#include "alloc.h"
#include "cstl/string.h"
#include <wchar.h>

#ifdef WIDE
typedef wchar_t ch_t;
typedef struct cstl_wstring str_t;
#define S(f) cstl_wstring_##f
#define WBYTES ((int)sizeof(wchar_t))
#else
typedef char ch_t;
typedef struct cstl_string str_t;
#define S(f) cstl_string_##f
#define WBYTES 1
#endif

static int MAXLEN, PROBES = 1;
static str_t T;                       /* the string under test */
#define NLIT 7
static const ch_t L1[] = { 0 }, L2[] = { 'a', 0 }, L3[] = { 'b', 0 }, L4[] = { 'a', 'b', 0 }, L5[] = { 'b', 'a', 0 },
                  L6[] = { 'a', 'a', 'b', 0 }, L7[] = { 'a', 0, 'b', 0 };
static const ch_t *LIT[NLIT + 1] = { NULL, L1, L2, L3, L4, L5, L6, L7 };
static const int LITLEN[NLIT + 1] = { 0, 1, 2, 2, 3, 3, 4, 4 };      /* array length incl. terminators */

static int code(ch_t c) { return c == 0 ? 0 : c == 'a' ? 1 : c == 'b' ? 2 : -1; }
static ch_t chr(int c) { return c == 0 ? 0 : c == 1 ? 'a' : 'b'; }
static size_t term(int packed) { int k = packed / 1000, n = packed % 1000; return k ? SIZE_MAX - (size_t)n : (size_t)n; }
static void term_json(jb_t *b, const char *name, int packed)
{
    jb_printf(b, "\"%s\":{\"k\":\"%s\",\"n\":%d}", name, packed / 1000 ? "max" : "n", packed % 1000);
}
static void drv_setup(int argc, char **argv)
{
    if (argc < 1) { fprintf(stderr, "drv_str: scope = <maxlen> [probes]\n"); exit(64); }
    MAXLEN = atoi(argv[0]);
    if (argc > 1) PROBES = atoi(argv[1]);
}
static void drv_header(jb_t *b) { jb_printf(b, "\"w\":%d,\"maxlen\":%d", WBYTES, MAXLEN); }
static void drv_reset(void)
{
    a_reset();
#ifdef USE_INITIALIZER
    { str_t x = CSTL_STRING_INITIALIZER(ch_t); T = x; }
#else
    S(init)(&T);
#endif
}
static void drv_aborted(void) { a_end(); }

static void partner_make(str_t *p, int lit)
{
    S(init)(p);
    if (lit == 8) { S(set_str)(p, LIT[4]); S(insert_ch)(p, 1, 1, 0); }      /* "ab" with a NUL inserted: a, NUL, b */
    else if (lit) S(set_str)(p, LIT[lit]);
}
static void chars_json(jb_t *b, const ch_t *p, size_t n)
{
    size_t i;
    jb_puts(b, "[");
    for (i = 0; i < n; i++) jb_printf(b, "%s%d", i ? "," : "", code(p[i]));
    jb_puts(b, "]");
}
/* events of partner set-up / tear-down are not part of the operation */
static void ev_forget(void) { jb_reset(&e_ev); e_evn = 0; }

static void drv_apply(const vop_t *op, jb_t *res)
{
    const int *a = op->a;
    unsigned long fm = a[5] ? 1UL : 0UL;
    str_t P;
    switch (op->k) {
    case 0: a_begin(fm); S(set_str)(&T, LIT[a[0]]); a_end(); jb_puts(res, ",\"ret\":0"); break;
    case 1: a_begin(fm); S(insert_ch)(&T, term(a[0]), term(a[1]), chr(a[2])); a_end(); jb_puts(res, ",\"ret\":0"); break;
    case 2: a_begin(fm); S(append_ch)(&T, term(a[0]), chr(a[1])); a_end(); jb_puts(res, ",\"ret\":0"); break;
    case 3: a_begin(fm); S(insert_str_n)(&T, term(a[0]), LIT[a[1]], term(a[2])); a_end(); jb_puts(res, ",\"ret\":0"); break;
    case 4: a_begin(fm); S(insert_str)(&T, term(a[0]), LIT[a[1]]); a_end(); jb_puts(res, ",\"ret\":0"); break;
    case 5: a_begin(fm); S(append_str)(&T, LIT[a[0]]); a_end(); jb_puts(res, ",\"ret\":0"); break;
    case 6: a_begin(fm); S(append_str_n)(&T, LIT[a[0]], term(a[1])); a_end(); jb_puts(res, ",\"ret\":0"); break;
    case 7: case 8:
        a_begin(0); partner_make(&P, a[op->k == 7 ? 1 : 0]); ev_forget();
        a_begin(fm);
        if (op->k == 7) S(insert)(&T, term(a[0]), &P); else S(append)(&T, &P);
        a_end();
        ev_mark(); a_begin(0); S(clear)(&P); a_end(); ev_rewind();
        jb_puts(res, ",\"ret\":0");
        break;
    case 9: a_begin(fm); S(erase)(&T, term(a[0]), term(a[1])); a_end(); jb_puts(res, ",\"ret\":0"); break;
    case 10: a_begin(fm); S(resize)(&T, term(a[0])); a_end(); jb_puts(res, ",\"ret\":0"); break;
    case 11: a_begin(fm); S(reserve)(&T, term(a[0])); a_end(); jb_puts(res, ",\"ret\":0"); break;
    case 12: a_begin(0); S(clear)(&T); a_end(); jb_puts(res, ",\"ret\":0"); break;
    case 13: {
        a_begin(0); partner_make(&P, a[0]); ev_forget();
        S(swap)(&T, &P);
        jb_puts(res, ",\"ret\":"); chars_json(res, S(str)(&P), S(size)(&P) + 1);
        ev_mark(); S(clear)(&P); ev_rewind();
        a_end();
        break;
    }
    case 14: {
        a_begin(0); partner_make(&P, a[2]); ev_forget();
        a_begin(fm); S(substr)(&T, term(a[0]), term(a[1]), &P); a_end();
        jb_puts(res, ",\"ret\":"); chars_json(res, S(str)(&P), S(size)(&P) + 1);
        jb_puts(res, ",\"psize\":"); jb_size(res, S(size)(&P));
        ev_mark(); a_begin(0); S(clear)(&P); a_end(); ev_rewind();
        break;
    }
    case 15: {
        const ch_t *p = S(at)(&T, term(a[0]));
        const ch_t *d = S(data)(&T);
        jb_printf(res, ",\"ret\":%ld", (p && d && p >= d && p - d < (1L << 28)) ? (long)((const char *)p - (const char *)d) : -1L);
        break;
    }
    case 16: jb_printf(res, ",\"ret\":%ld", (long)S(find_ch)(&T, chr(a[0]), term(a[1]))); break;
    case 17: jb_printf(res, ",\"ret\":%ld", (long)S(find_str)(&T, LIT[a[0]], term(a[1]))); break;
    case 18: {
        long r;
        a_begin(0); partner_make(&P, a[0]); ev_forget(); a_end();
        r = (long)S(find)(&T, &P, term(a[1]));
        ev_mark(); a_begin(0); S(clear)(&P); a_end(); ev_rewind();
        jb_printf(res, ",\"ret\":%ld", r);
        break;
    }
    case 19: { int r = S(compare_str)(&T, LIT[a[0]]); jb_printf(res, ",\"ret\":%d", r < 0 ? -1 : r > 0 ? 1 : 0); break; }
    case 20: {
        int r;
        a_begin(0); partner_make(&P, a[0]); ev_forget(); a_end();
        r = S(compare)(&T, &P);
        ev_mark(); a_begin(0); S(clear)(&P); a_end(); ev_rewind();
        jb_printf(res, ",\"ret\":%d", r < 0 ? -1 : r > 0 ? 1 : 0);
        break;
    }
    case 21:
        jb_puts(res, ",\"ret\":["); jb_size(res, S(size)(&T)); jb_puts(res, ","); jb_size(res, S(capacity)(&T)); jb_puts(res, ",");
        chars_json(res, S(str)(&T), S(size)(&T) < 100000 ? S(size)(&T) + 1 : 1); jb_puts(res, "]");
        break;
    default: jb_puts(res, ",\"ret\":0");
    }
}
static void drv_opjson(const vop_t *op, jb_t *b)
{
    const int *a = op->a;
    static const char *nm[] = { "setstr", "insch", "appch", "insstrn", "insstr", "appstr", "appstrn", "ins", "app", "erase", "resize",
                                "reserve", "clear", "swap", "substr", "at", "findch", "findstr", "find", "cmpstr", "cmp", "stat" };
    jb_printf(b, "\"op\":\"%s\",\"fail\":%s", op->k >= 0 && op->k <= 21 ? nm[op->k] : "?", a[5] ? "true" : "false");
    switch (op->k) {
    case 0: case 5: case 8: case 13: case 19: case 20: jb_printf(b, ",\"lit\":%d", a[0]); break;
    case 1: jb_puts(b, ","); term_json(b, "pos", a[0]); jb_puts(b, ","); term_json(b, "cnt", a[1]); jb_printf(b, ",\"c\":%d", a[2]); break;
    case 2: jb_puts(b, ","); term_json(b, "cnt", a[0]); jb_printf(b, ",\"c\":%d", a[1]); break;
    case 3: jb_puts(b, ","); term_json(b, "pos", a[0]); jb_printf(b, ",\"lit\":%d,", a[1]); term_json(b, "cnt", a[2]); break;
    case 4: case 7: jb_puts(b, ","); term_json(b, "pos", a[0]); jb_printf(b, ",\"lit\":%d", a[1]); break;
    case 6: jb_printf(b, ",\"lit\":%d,", a[0]); term_json(b, "cnt", a[1]); break;
    case 9: jb_puts(b, ","); term_json(b, "pos", a[0]); jb_puts(b, ","); term_json(b, "cnt", a[1]); break;
    case 10: case 11: case 15: jb_puts(b, ","); term_json(b, "t", a[0]); break;
    case 14: jb_puts(b, ","); term_json(b, "pos", a[0]); jb_puts(b, ","); term_json(b, "cnt", a[1]); jb_printf(b, ",\"lit\":%d", a[2]); break;
    case 16: jb_printf(b, ",\"c\":%d,", a[0]); term_json(b, "pos", a[1]); break;
    case 17: case 18: jb_printf(b, ",\"lit\":%d,", a[0]); term_json(b, "pos", a[1]); break;
    default: break;
    }
}
static int drv_terminal(const vop_t *op) { (void)op; return 0; }
static long small(size_t v) { return v < ((size_t)1 << 30) ? (long)v : -1L; }
static void drv_ser(jb_t *b)
{
    struct cstl_vector *v = &T.v;
    a_blk_t *blk = v->elem.base ? a_find(v->elem.base) : NULL;
    long bytes = blk && blk->live ? small(blk->n) : -1;
    int bad = 0;
    if (v->elem.base && bytes < 0) bad = 1;
    jb_printf(b, "{\"base\":%s,\"blk\":%ld,\"count\":%ld,\"cap\":%ld,\"ch\":", v->elem.base ? "true" : "false",
              v->elem.base ? bytes : 0L, small(v->count), small(v->cap));
    if (v->elem.base && bytes >= 0 && v->count <= (size_t)bytes / sizeof(ch_t)) chars_json(b, v->elem.base, v->count);
    else { jb_puts(b, "[]"); if (v->count) bad = 1; }
    jb_printf(b, ",\"nlive\":%d,\"damage\":%s,\"bad\":%s}", a_live_count(), a_check() ? "true" : "false", bad ? "true" : "false");
}
#define T_N(n) (n)
#define T_MAX(n) (1000 + (n))
#define ADD(K, A0, A1, A2, F) do { vop_t o_ = { K, { A0, A1, A2, 0, 0, F } }; ops[no++] = o_; } while (0)
/* The operations tried in every state: a literal transcription of OpSetM(s, ml) in spec/StrOps.tla (the trace
 * specification compares the two sets state by state, so they cannot drift apart unnoticed). */
static int drv_enum(vop_t *ops, int max)
{
    static const int CLEN[NLIT + 1] = { 0, 0, 1, 1, 2, 2, 3, 1 };     /* LitLen: length as a C string */
#define PLEN(l) ((l) == 0 ? 0 : (l) == 8 ? 3 : CLEN[l])
    int no = 0, sz = (int)S(size)(&T), p, c, l, f, n, h, ch;
    int room = MAXLEN - sz;
    (void)max;
    for (f = 0; f < 2; f++) {
        for (l = 1; l <= NLIT; l++) if (CLEN[l] <= MAXLEN) ADD(0, l, 0, 0, f);
        for (p = 0; p <= sz + 1; p++) for (c = 0; c <= 2; c++) if (c <= room) for (ch = 0; ch <= 2; ch++) ADD(1, T_N(p), T_N(c), ch, f);
        for (n = 0; n < 2; n++) {
            int pos = n ? sz : 0;
            if (n && sz == 0) continue;                                 /* {N(0), N(Size)} is one position then */
            for (h = 0; h <= 3; h++) ADD(1, T_N(pos), T_MAX(h), 1, f);
            if (sz > 3) ADD(1, T_N(pos), T_MAX(sz), 1, f);
            if (sz + 1 > 3) ADD(1, T_N(pos), T_MAX(sz + 1), 1, f);
        }
        ADD(1, T_MAX(0), T_N(1), 1, f);
        if (room >= 1) for (ch = 0; ch <= 2; ch++) ADD(2, T_N(1), ch, 0, f);
        for (h = 0; h <= 3; h++) ADD(2, T_MAX(h), 1, 0, f);
        for (p = 0; p <= sz + 1; p++) for (l = 1; l <= NLIT; l++) if (CLEN[l] <= room) ADD(4, T_N(p), l, 0, f);
        for (l = 1; l <= NLIT; l++) for (p = 0; p <= sz + 1; p++) for (c = 0; c <= 4; c++) if (c <= room && c <= LITLEN[l]) ADD(3, T_N(p), l, T_N(c), f);
        for (h = 0; h <= 3; h++) ADD(3, T_N(0), 4, T_MAX(h), f);
        for (l = 1; l <= NLIT; l++) if (CLEN[l] <= room) ADD(5, l, 0, 0, f);
        for (l = 1; l <= NLIT; l++) for (c = 0; c <= 2; c++) if (c <= room && c <= LITLEN[l]) ADD(6, l, T_N(c), 0, f);
        for (p = 0; p <= sz + 1; p++) for (l = 0; l <= NLIT + 1; l++) if (PLEN(l) <= room) ADD(7, T_N(p), l, 0, f);
        for (l = 0; l <= NLIT + 1; l++) if (PLEN(l) <= room) ADD(8, l, 0, 0, f);
        for (n = 0; n <= MAXLEN; n++) { ADD(10, T_N(n), 0, 0, f); ADD(11, T_N(n), 0, 0, f); }
        for (h = 0; h <= 3; h++) { ADD(10, T_MAX(h), 0, 0, f); ADD(11, T_MAX(h), 0, 0, f); }
        for (p = 0; p <= sz + 2; p++) {                                  /* sz + 2 stands for the position SIZE_MAX */
            int pt = p <= sz + 1 ? T_N(p) : T_MAX(0);
            for (l = 0; l <= 4; l += 2) {
                for (n = 0; n <= sz + 1; n++) ADD(14, pt, T_N(n), l, f);
                for (h = 0; h <= 3; h++) ADD(14, pt, T_MAX(h), l, f);
            }
        }
    }
    for (p = 0; p <= sz + 2; p++) {
        int pt = p <= sz + 1 ? T_N(p) : T_MAX(0);
        for (n = 0; n <= sz + 1; n++) ADD(9, pt, T_N(n), 0, 0);
        for (h = 0; h <= 3; h++) ADD(9, pt, T_MAX(h), 0, 0);
    }
    ADD(12, 0, 0, 0, 0);
    for (l = 0; l <= NLIT + 1; l++) if (PLEN(l) <= MAXLEN) ADD(13, l, 0, 0, 0);
    for (p = 0; p <= sz + 1; p++) ADD(15, T_N(p), 0, 0, 0);
    for (h = 0; h <= 3; h++) ADD(15, T_MAX(h), 0, 0, 0);
    for (c = 0; c <= 2; c++) { for (p = 0; p <= sz + 1; p++) ADD(16, c, T_N(p), 0, 0); for (h = 0; h <= 3; h++) ADD(16, c, T_MAX(h), 0, 0); }
    for (l = 1; l <= NLIT; l++) { for (p = 0; p <= sz + 1; p++) ADD(17, l, T_N(p), 0, 0); for (h = 0; h <= 3; h++) ADD(17, l, T_MAX(h), 0, 0); }
    for (p = 0; p <= sz + 1; p++) { ADD(18, 0, T_N(p), 0, 0); ADD(18, 4, T_N(p), 0, 0); ADD(18, 8, T_N(p), 0, 0); }
    for (l = 1; l <= NLIT; l++) ADD(19, l, 0, 0, 0);
    ADD(20, 0, 0, 0, 0); ADD(20, 4, 0, 0, 0); ADD(20, 6, 0, 0, 0); ADD(20, 8, 0, 0, 0);
    ADD(21, 0, 0, 0, 0);
    return no;
}
static int drv_random(unsigned long (*rnd)(void), vop_t *op)
{
    int sz = (int)S(size)(&T), room = MAXLEN - sz;
    unsigned long r = rnd() % 100;
    int p = (int)(rnd() % (unsigned)(sz + 1)), l = 1 + (int)(rnd() % NLIT), c = (int)(rnd() % 3);
    int pe = (rnd() % 12 == 0) ? sz + 1 : p;           /* sometimes one past the end */
    op->a[5] = (rnd() % 16 == 0);
    if (room < 4) { r = 30 + rnd() % 25; }             /* shrink when near the limit */
    if (MAXLEN >= 999) return 0;                       /* terms are packed with n < 1000 */
    if (r < 12) {
        /* mostly short runs, sometimes a long one (block-wise fill paths), never beyond the room left */
        int cnt = (rnd() % 5 == 0) ? (int)(rnd() % 70) : (int)(rnd() % 4);
        if (cnt > room) cnt = room > 0 ? room : 0;
        op->k = 1; op->a[0] = T_N(pe); op->a[1] = T_N(cnt); op->a[2] = c;
    }
    else if (r < 18) { op->k = 4; op->a[0] = T_N(pe); op->a[1] = l; }
    else if (r < 22) { op->k = 3; op->a[0] = T_N(pe); op->a[1] = l; op->a[2] = T_N((int)(rnd() % (unsigned)(LITLEN[l] + 1))); }
    else if (r < 26) { op->k = 7; op->a[0] = T_N(pe); op->a[1] = (int)(rnd() % 9); if (op->a[1] == 7) op->a[1] = 8; }
    else if (r < 30) {
        op->k = 2 + 3 * (int)(rnd() % 2);
        if (op->k == 2) { int cnt = (rnd() % 4 == 0) ? (int)(rnd() % 70) : (int)(rnd() % 3); if (cnt > room) cnt = room > 0 ? room : 0; op->a[0] = T_N(cnt); op->a[1] = c; }
        else op->a[0] = l;
    }
    else if (r < 48) { op->k = 9; op->a[0] = T_N(pe); op->a[1] = (rnd() % 6 == 0) ? T_MAX((int)(rnd() % 3)) : T_N((int)(rnd() % (unsigned)(sz + 2))); op->a[5] = 0; }
    else if (r < 56) { op->k = 10; op->a[0] = T_N((int)(rnd() % (unsigned)(MAXLEN + 1))); if (rnd() % 20 == 0) op->a[0] = T_MAX((int)(rnd() % 3)); }
    else if (r < 60) { op->k = 11; op->a[0] = T_N((int)(rnd() % (unsigned)(MAXLEN + 1))); if (rnd() % 10 == 0) op->a[0] = T_MAX((int)(rnd() % 3)); }
    else if (r < 62) { op->k = 12; op->a[5] = 0; }
    else if (r < 66) { op->k = 13; op->a[0] = (int)(rnd() % 7); op->a[5] = 0; }
    else if (r < 74) { op->k = 14; op->a[0] = T_N(pe); op->a[1] = (rnd() % 5 == 0) ? T_MAX(0) : T_N((int)(rnd() % (unsigned)(sz + 2))); op->a[2] = (int)(rnd() % 7); }
    else if (r < 78) { op->k = 15; op->a[0] = T_N((int)(rnd() % (unsigned)(sz + 2))); op->a[5] = 0; }
    else if (r < 84) { op->k = 16; op->a[0] = c; op->a[1] = T_N(pe); op->a[5] = 0; }
    else if (r < 90) { op->k = 17 + (int)(rnd() & 1); op->a[0] = op->k == 17 ? l : (int)(rnd() % 7); op->a[1] = T_N(pe); op->a[5] = 0; }
    else if (r < 94) { op->k = 19 + (int)(rnd() & 1); op->a[0] = op->k == 19 ? l : (int)(rnd() % 7); op->a[5] = 0; }
    else if (r < 97) { op->k = 0; op->a[0] = l; }
    else { op->k = 21; op->a[5] = 0; }
    return 1;
}
int main(int argc, char **argv) { return e_main(argc, argv); }
