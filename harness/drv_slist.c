/*
 * drv_slist.c — conformance driver for src/slist.c.
 * scope args: <vals e.g. 1212> <nlists> [probes 0|1]
 * ops: 0 pushf(l,e) 1 pushb(l,e) 2 popf(l) 4 insert(l,pe,e) 5 erasea(l,pe)
 *      6 reverse(l) 7 sort(l) 8 concat(d,src) 9 swap(a,b) 11 foreach(l,stop,eraseVisited)
 *      12 clear(l) 13 peek(l)
 * Pointers are logged as node ids 1..N, 0 for NULL, -j for the head link of
 * list j (what t points at when the list is empty); anything else sets "bad".
 */
#include "engine.h"
#include "cstl/slist.h"

#define MAXN 256
#define MAXL 4
/* two link members: list objects are configured with different node offsets (odd lists use n, even lists n2), so
 * an operation that moves contents between list objects has to carry the configuration along */
struct el { int val; int id; struct cstl_slist_node n; long pad; struct cstl_slist_node n2; };
#define OFF_OF(j) ((j) % 2 ? offsetof(struct el, n) : offsetof(struct el, n2))
static struct el pool[MAXN + 1];
static int N, NL, PROBES = 1, MAXV;
static struct cstl_slist L[MAXL + 1];
static int bad;

static int id_of_el(const void *e)
{
    uintptr_t d;
    if (!e) return 0;
    if ((uintptr_t)e < (uintptr_t)&pool[1] || (uintptr_t)e > (uintptr_t)&pool[N]) return -999;
    d = (uintptr_t)e - (uintptr_t)&pool[0];
    if (d % sizeof(struct el)) return -999;
    return (int)(d / sizeof(struct el));
}
/* a link found while walking list l: elements hang on the member list l is configured with */
static int enc(const struct cstl_slist_node *p, int l)
{
    int j, id;
    if (!p) return 0;
    for (j = 1; j <= NL; j++) if (p == &L[j].h) return -j;
    id = id_of_el((const char *)p - L[l].off);
    if (id <= 0) { bad = 1; return 0; }
    return id;
}
/* VERIF_NESTCMP=1: every comparison first sorts a list of its own (three elements, another comparison function and
 * private pointer), the way a comparator over elements that own lists sorts them lazily; the inner result must be in
 * order and the outer sort must not notice */
static int NESTCMP, in_nest;
static int cmp_inner(const void *a, const void *b, void *p)
{
    e_check_priv2(p);
    return e_cmp3(((const struct el *)b)->val, ((const struct el *)a)->val);       /* descending */
}
static void nested_sort(void)
{
    static struct el in[3]; struct cstl_slist IL; struct el *f; int i;
    cstl_slist_init(&IL, offsetof(struct el, n2));
    for (i = 0; i < 3; i++) { in[i].val = (i * 2) % 3 + 1; cstl_slist_push_back(&IL, &in[i]); }      /* 1 3 2 */
    in_nest = 1; cstl_slist_sort(&IL, cmp_inner, E_PRIV2); in_nest = 0;
    f = cstl_slist_front(&IL);
    if (!f || f->val != 3 || cstl_slist_size(&IL) != 3) e_forced_outcome = "badnest";
}
static int cmp(const void *a, const void *b, void *p)
{
    e_check_priv(p);
    if (NESTCMP && !in_nest) nested_sort();
    return e_cmp3(((const struct el *)a)->val, ((const struct el *)b)->val);
}
static void drv_setup(int argc, char **argv)
{
    int i; const char *v;
    NESTCMP = getenv("VERIF_NESTCMP") != NULL;
    if (argc < 2) { fprintf(stderr, "drv_slist: scope = <vals> <nlists> [probes]\n"); exit(64); }
    v = argv[0]; N = (int)strlen(v); NL = atoi(argv[1]);
    if (argc > 2) PROBES = atoi(argv[2]);
    if (N > MAXN || NL > MAXL) exit(64);
    for (i = 1; i <= N; i++) { pool[i].val = v[i - 1] - '0'; pool[i].id = i; if (pool[i].val > MAXV) MAXV = pool[i].val; }
}
static void drv_header(jb_t *b)
{
    int i;
    jb_printf(b, "\"N\":%d,\"NL\":%d,\"val\":[", N, NL);
    for (i = 1; i <= N; i++) jb_printf(b, "%s%d", i > 1 ? "," : "", pool[i].val);
    jb_puts(b, "]");
}
static void drv_reset(void)
{
    int i;
#ifdef USE_INITIALIZER
    for (i = 1; i <= NL; i++) {
        struct cstl_slist x = CSTL_SLIST_INITIALIZER(L[i], struct el, n), y = CSTL_SLIST_INITIALIZER(L[i], struct el, n2);
        L[i] = i % 2 ? x : y;
    }
#else
    for (i = 1; i <= NL; i++) cstl_slist_init(&L[i], OFF_OF(i));
#endif
    for (i = 0; i <= N; i++) { memset(&pool[i].n, 0, sizeof pool[i].n); memset(&pool[i].n2, 0, sizeof pool[i].n2); }
}
static void drv_aborted(void) { }

static int where[MAXN + 1];
static int seqs[MAXL + 1][MAXN + 1], slen[MAXL + 1];
static void rescan(void)
{
    int j, c;
    memset(where, 0, sizeof where);
    bad = 0;
    for (j = 1; j <= NL; j++) {
        const struct cstl_slist_node *p = L[j].h.n;
        slen[j] = 0;
        for (c = 0; p != NULL; c++) {
            int id = enc(p, j);
            if (bad || id <= 0 || where[id] || c > N) { bad = 1; break; }
            where[id] = j; seqs[j][slen[j]++] = id;
            p = p->n;
        }
    }
}
static int cb_count, cb_stop, cb_erase, cb_list;
static int visit_cb(void *e, void *p)
{
    int id = id_of_el(e);
    e_check_priv(p);
    cb_count++;
    ev_add("%d", id);
    if (cb_erase && id > 0) {
        /* take the visited element out (it is the front: its predecessors went the same way) and reuse its memory */
        if (cstl_slist_pop_front(&L[cb_list]) != e) bad = 1;
        memset(&pool[id].n, 0xA5, sizeof pool[id].n); memset(&pool[id].n2, 0xA5, sizeof pool[id].n2);
    }
    return (cb_stop && cb_count == cb_stop) ? e_stopval(cb_stop) : 0;
}
static void clear_cb(void *e, void *p)
{
    int id = id_of_el(e);
    (void)p;
    ev_add("%d", id);
    if (id > 0) { memset(&pool[id].n, 0xA5, sizeof pool[id].n); memset(&pool[id].n2, 0xA5, sizeof pool[id].n2); }
}
static void drv_apply(const vop_t *op, jb_t *res)
{
    const int *a = op->a;
    switch (op->k) {
    case 0: cstl_slist_push_front(&L[a[0]], &pool[a[1]]); jb_puts(res, ",\"ret\":0"); break;
    case 1: cstl_slist_push_back(&L[a[0]], &pool[a[1]]); jb_puts(res, ",\"ret\":0"); break;
    case 2: jb_printf(res, ",\"ret\":%d", id_of_el(cstl_slist_pop_front(&L[a[0]]))); break;
    case 4: cstl_slist_insert_after(&L[a[0]], &pool[a[1]], &pool[a[2]]); jb_puts(res, ",\"ret\":0"); break;
    case 5: jb_printf(res, ",\"ret\":%d", id_of_el(cstl_slist_erase_after(&L[a[0]], &pool[a[1]]))); break;
    case 6: cstl_slist_reverse(&L[a[0]]); jb_puts(res, ",\"ret\":0"); break;
    case 7: cstl_slist_sort(&L[a[0]], cmp, E_PRIV); jb_puts(res, ",\"ret\":0"); break;
    case 8: cstl_slist_concat(&L[a[0]], &L[a[1]]); jb_puts(res, ",\"ret\":0"); break;
    case 9: cstl_slist_swap(&L[a[0]], &L[a[1]]); jb_puts(res, ",\"ret\":0"); break;
    case 11: {
        int r;
        cb_count = 0; cb_stop = a[1]; cb_erase = a[2]; cb_list = a[0];
        r = cstl_slist_foreach(&L[a[0]], visit_cb, E_PRIV);
        jb_printf(res, ",\"ret\":%d", r);
        break;
    }
    case 12: cstl_slist_clear(&L[a[0]], clear_cb); jb_puts(res, ",\"ret\":0"); break;
    case 13:
        jb_printf(res, ",\"ret\":[%d,%d,", id_of_el(cstl_slist_front(&L[a[0]])), id_of_el(cstl_slist_back(&L[a[0]])));
        jb_size(res, cstl_slist_size(&L[a[0]])); jb_puts(res, "]");
        break;
    default: jb_puts(res, ",\"ret\":0");
    }
}
static void drv_opjson(const vop_t *op, jb_t *b)
{
    const int *a = op->a;
    switch (op->k) {
    case 0: jb_printf(b, "\"op\":\"pushf\",\"l\":%d,\"e\":%d", a[0], a[1]); break;
    case 1: jb_printf(b, "\"op\":\"pushb\",\"l\":%d,\"e\":%d", a[0], a[1]); break;
    case 2: jb_printf(b, "\"op\":\"popf\",\"l\":%d", a[0]); break;
    case 4: jb_printf(b, "\"op\":\"insert\",\"l\":%d,\"pe\":%d,\"e\":%d", a[0], a[1], a[2]); break;
    case 5: jb_printf(b, "\"op\":\"erasea\",\"l\":%d,\"pe\":%d", a[0], a[1]); break;
    case 6: jb_printf(b, "\"op\":\"reverse\",\"l\":%d", a[0]); break;
    case 7: jb_printf(b, "\"op\":\"sort\",\"l\":%d", a[0]); break;
    case 8: jb_printf(b, "\"op\":\"concat\",\"d\":%d,\"src\":%d", a[0], a[1]); break;
    case 9: jb_printf(b, "\"op\":\"swap\",\"a\":%d,\"b\":%d", a[0], a[1]); break;
    case 11: jb_printf(b, "\"op\":\"foreach\",\"l\":%d,\"stop\":%d,\"er\":%s", a[0], a[1], a[2] ? "true" : "false"); break;
    case 12: jb_printf(b, "\"op\":\"clear\",\"l\":%d", a[0]); break;
    case 13: jb_printf(b, "\"op\":\"peek\",\"l\":%d", a[0]); break;
    default: jb_printf(b, "\"op\":\"?%d\"", op->k);
    }
}
static int drv_terminal(const vop_t *op) { (void)op; return 0; }
static void drv_ser(jb_t *b)
{
    int j, i;
    rescan();
    jb_puts(b, "{\"hn\":[");
    for (j = 1; j <= NL; j++) jb_printf(b, "%s%d", j > 1 ? "," : "", enc(L[j].h.n, j));
    jb_puts(b, "],\"t\":[");
    for (j = 1; j <= NL; j++) jb_printf(b, "%s%d", j > 1 ? "," : "", enc(L[j].t, j));
    jb_puts(b, "],\"count\":[");
    for (j = 1; j <= NL; j++) { if (j > 1) jb_puts(b, ","); jb_size(b, L[j].count); }
    jb_puts(b, "],\"nx\":[");
    for (i = 1; i <= N; i++) jb_printf(b, "%s%d", i > 1 ? "," : "", where[i] ? enc(((const struct cstl_slist_node *)((const char *)&pool[i] + L[where[i]].off))->n, where[i]) : 0);
    jb_puts(b, "],\"offk\":[");      /* which link member each list object is configured with */
    for (j = 1; j <= NL; j++) jb_printf(b, "%s%d", j > 1 ? "," : "", L[j].off == offsetof(struct el, n) ? 1 : L[j].off == offsetof(struct el, n2) ? 2 : -1);
    jb_printf(b, "],\"bad\":%s}", bad ? "true" : "false");
}
#define ADD(K, A0, A1, A2, A3) do { vop_t o_ = { K, { A0, A1, A2, A3 } }; ops[no++] = o_; } while (0)
static int drv_enum(vop_t *ops, int max)
{
    int no = 0, l, e, i, m, st;
    (void)max;
    rescan();
    if (bad) return 0;
    for (l = 1; l <= NL; l++) {
        for (e = 1; e <= N; e++) if (!where[e]) { ADD(0, l, e, 0, 0); ADD(1, l, e, 0, 0); }
        ADD(2, l, 0, 0, 0);
        for (i = 0; i < slen[l]; i++) {
            for (e = 1; e <= N; e++) if (!where[e]) ADD(4, l, seqs[l][i], e, 0);
            if (i + 1 < slen[l]) ADD(5, l, seqs[l][i], 0, 0);
        }
        ADD(6, l, 0, 0, 0); ADD(7, l, 0, 0, 0); ADD(12, l, 0, 0, 0);
        for (m = 1; m <= NL; m++) if (m != l && L[m].off == L[l].off) ADD(8, l, m, 0, 0);   /* concat: like-configured lists only */
        for (m = l; m <= NL; m++) ADD(9, l, m, 0, 0);      /* m == l: a list swapped with itself */
        if (PROBES) {
            for (st = 0; st <= slen[l]; st++) { ADD(11, l, st, 0, 0); ADD(11, l, st, 1, 0); }
            ADD(13, l, 0, 0, 0);
        }
    }
    return no;
}
static int drv_random(unsigned long (*rnd)(void), vop_t *op)
{
    int l = 1 + (int)(rnd() % (unsigned)NL), m, e, tries;
    unsigned long r = rnd() % 100;
    rescan();
    if (bad) return 0;
    for (tries = 0, e = 0; tries < 6; tries++) { e = 1 + (int)(rnd() % (unsigned)N); if (!where[e]) break; }
    if (where[e]) e = 0;
    m = 1 + (int)(rnd() % (unsigned)NL);
    if (r < 32 && e) { op->k = (int)(rnd() & 1); op->a[0] = l; op->a[1] = e; }
    else if (r < 42 && e && slen[l]) { op->k = 4; op->a[0] = l; op->a[1] = seqs[l][rnd() % (unsigned)slen[l]]; op->a[2] = e; }
    else if (r < 54) { op->k = 2; op->a[0] = l; }
    else if (r < 64 && slen[l] > 1) { op->k = 5; op->a[0] = l; op->a[1] = seqs[l][rnd() % (unsigned)(slen[l] - 1)]; }
    else if (r < 70) { op->k = 6; op->a[0] = l; }
    else if (r < 76) { op->k = 7; op->a[0] = l; }
    else if (r < 82 && m != l && L[m].off == L[l].off) { op->k = 8; op->a[0] = l; op->a[1] = m; }
    else if (r < 87 ) { op->k = 9; op->a[0] = l < m ? l : m; op->a[1] = l < m ? m : l; }
    else if (r < 93) { op->k = 11; op->a[0] = l; op->a[1] = (rnd() & 1) ? 0 : (int)(rnd() % (unsigned)(slen[l] + 1)); op->a[2] = rnd() % 3 == 0; }
    else if (r < 95) { op->k = 12; op->a[0] = l; }
    else { op->k = 13; op->a[0] = l; }
    return 1;
}
int main(int argc, char **argv) { return e_main(argc, argv); }
