/*
 * drv_heap.c — conformance driver for src/heap.c (and cstl_fls in src/common.c).
 * scope args: <prios e.g. 112233> <swap 0|1> [probes 0|1] [push-bias %]
 * ops: 0 push(n)  1 pop  2 get(+size)  3 clear  4 swap  5 fls(probe index)
 */
#include "engine.h"
#include "cstl/heap.h"

#define MAXN 2048
/* two node members: the second heap object is configured differently in every respect (node member, comparison
 * function, private pointer), so swapping the heaps has to carry the configuration along with the contents */
struct el { int prio; int id; struct cstl_heap_node n; long pad; struct cstl_heap_node n2; };
static struct el pool[MAXN + 1];
static int N, SWAP, PROBES = 1, BIAS = 50;
static struct cstl_heap H[2];
static int cur;
static unsigned char held[MAXN + 1];

static int cmp(const void *a, const void *b, void *p) { e_check_priv(p); return e_cmp3(((const struct el *)a)->prio, ((const struct el *)b)->prio); }
static int cmp2(const void *a, const void *b, void *p) { e_check_priv2(p); return e_cmp3(((const struct el *)a)->prio, ((const struct el *)b)->prio); }
static int id_of_el(const void *e)
{
    uintptr_t d;
    if (!e) return 0;
    if ((uintptr_t)e < (uintptr_t)&pool[1] || (uintptr_t)e > (uintptr_t)&pool[N]) return -1;
    d = (uintptr_t)e - (uintptr_t)&pool[0];
    if (d % sizeof(struct el)) return -1;
    return (int)(d / sizeof(struct el));
}
static int id_of_bn(const struct cstl_bintree_node *bn)
{
    if (!bn) return 0;
    return id_of_el((const char *)bn - H[cur].bt.off);      /* the member the current heap is configured with */
}
/* fls probes: 2^i-1, 2^i, 2^i+1 for i = 0..63, then 0 */
static unsigned long fls_probe(int k)
{
    int i = k / 3;
    if (k >= 192) return 0;
    return ((unsigned long)1 << i) + (unsigned long)(k % 3) - 1;
}
static void drv_setup(int argc, char **argv)
{
    int i; const char *pr;
    if (argc < 2) { fprintf(stderr, "drv_heap: scope = <prios> <swap> [probes]\n"); exit(64); }
    pr = argv[0]; N = (int)strlen(pr); SWAP = atoi(argv[1]);
    if (argc > 2) PROBES = atoi(argv[2]);
    if (argc > 3) BIAS = atoi(argv[3]);       /* percentage of pushes in random mode */
    if (N > MAXN) exit(64);
    for (i = 1; i <= N; i++) { pool[i].prio = pr[i - 1] - '0'; pool[i].id = i; }
}
static void drv_header(jb_t *b)
{
    int i;
    jb_printf(b, "\"N\":%d,\"prio\":[", N);
    for (i = 1; i <= N; i++) jb_printf(b, "%s%d", i > 1 ? "," : "", pool[i].prio);
    jb_puts(b, "]");
}
static void drv_reset(void)
{
    int i;
#ifdef USE_INITIALIZER
    { struct cstl_heap x = CSTL_HEAP_INITIALIZER(struct el, n, cmp, E_PRIV), y = CSTL_HEAP_INITIALIZER(struct el, n2, cmp2, E_PRIV2); H[0] = x; H[1] = y; }
#else
    cstl_heap_init(&H[0], cmp, E_PRIV, offsetof(struct el, n));
    cstl_heap_init(&H[1], cmp2, E_PRIV2, offsetof(struct el, n2));
#endif
    cur = 0;
    for (i = 0; i <= N; i++) { memset(&pool[i].n, 0, sizeof pool[i].n); memset(&pool[i].n2, 0, sizeof pool[i].n2); held[i] = 0; }
}
static void drv_aborted(void) { }
static void clear_cb(void *e, void *p)
{
    int id = id_of_el(e);
    (void)p;
    ev_add("%d", id);
    if (id > 0) { held[id] = 0; memset(&pool[id].n, 0xA5, sizeof pool[id].n); memset(&pool[id].n2, 0xA5, sizeof pool[id].n2); }
}
static void drv_apply(const vop_t *op, jb_t *res)
{
    struct cstl_heap *h = &H[cur];
    switch (op->k) {
    case 0: cstl_heap_push(h, &pool[op->a[0]]); held[op->a[0]] = 1; jb_puts(res, ",\"ret\":0"); break;
    case 1: { int id = id_of_el(cstl_heap_pop(h)); if (id > 0) held[id] = 0; jb_printf(res, ",\"ret\":%d", id); break; }
    case 2: jb_printf(res, ",\"ret\":%d,\"size\":", id_of_el(cstl_heap_get(h))); jb_size(res, cstl_heap_size(h)); break;
    case 3: cstl_heap_clear(h, clear_cb); jb_puts(res, ",\"ret\":0"); break;
    case 4: cstl_heap_swap(&H[0], &H[1]); cur = 1 - cur; jb_puts(res, ",\"ret\":0"); break;
    case 5: {
        unsigned long x = fls_probe(op->a[0]);
        jb_printf(res, ",\"ret\":%d,\"x\":[%lu,%lu,%lu,%lu]", cstl_fls(x), (x >> 48) & 0xffff, (x >> 32) & 0xffff, (x >> 16) & 0xffff, x & 0xffff);
        break;
    }
    default: jb_puts(res, ",\"ret\":0");
    }
}
static void drv_opjson(const vop_t *op, jb_t *b)
{
    switch (op->k) {
    case 0: jb_printf(b, "\"op\":\"push\",\"n\":%d", op->a[0]); break;
    case 1: jb_puts(b, "\"op\":\"pop\""); break;
    case 2: jb_puts(b, "\"op\":\"get\""); break;
    case 3: jb_puts(b, "\"op\":\"clear\""); break;
    case 4: jb_puts(b, "\"op\":\"swap\""); break;
    case 5: jb_printf(b, "\"op\":\"fls\",\"k\":%d", op->a[0]); break;
    default: jb_printf(b, "\"op\":\"?%d\"", op->k);
    }
}
static int drv_terminal(const vop_t *op) { (void)op; return 0; }
static unsigned char member[MAXN + 1]; static int malformed;
static void mark(const struct cstl_bintree_node *bn, int depth)
{
    int id;
    if (!bn) return;
    id = id_of_bn(bn);
    if (id <= 0 || member[id] || depth > N + 1) { malformed = 1; return; }
    member[id] = 1; mark(bn->l, depth + 1); mark(bn->r, depth + 1);
}
static void drv_ser(jb_t *b)
{
    int f, i; static const char *nm[3] = { "p", "l", "r" };
    struct cstl_bintree *bt = &H[cur].bt;
    memset(member, 0, sizeof member); malformed = 0;
    mark(bt->root, 0);
    jb_printf(b, "{\"root\":%d,\"size\":", id_of_bn(bt->root)); jb_size(b, bt->size);
    jb_printf(b, ",\"cur\":%d,\"osize\":", cur); jb_size(b, H[1 - cur].bt.size);
    jb_printf(b, ",\"oroot\":%d,\"cfg\":%d,\"bad\":%s", id_of_bn(H[1 - cur].bt.root),
              bt->off == offsetof(struct el, n.bn) && bt->cmp.func == cmp && bt->cmp.priv == E_PRIV ? 1 :
              bt->off == offsetof(struct el, n2.bn) && bt->cmp.func == cmp2 && bt->cmp.priv == E_PRIV2 ? 2 : -1, malformed ? "true" : "false");
    for (f = 0; f < 3; f++) {
        jb_printf(b, ",\"%s\":[", nm[f]);
        for (i = 1; i <= N; i++) {
            int v = 0;
            if (member[i] && !malformed) {
                struct cstl_bintree_node *bn = (struct cstl_bintree_node *)((char *)&pool[i] + bt->off);
                v = f == 0 ? id_of_bn(bn->p) : f == 1 ? id_of_bn(bn->l) : id_of_bn(bn->r);
            }
            jb_printf(b, "%s%d", i > 1 ? "," : "", v);
        }
        jb_puts(b, "]");
    }
    jb_puts(b, "}");
}
static int drv_enum(vop_t *ops, int max)
{
    int no = 0, n;
    (void)max;
    for (n = 1; n <= N; n++) if (!held[n]) { vop_t o = { 0, { n } }; ops[no++] = o; }
    { vop_t o = { 1, { 0 } }; ops[no++] = o; }
    { vop_t o = { 3, { 0 } }; ops[no++] = o; }
    if (SWAP) { vop_t o = { 4, { 0 } }; ops[no++] = o; }
    if (PROBES) { vop_t o = { 2, { 0 } }; ops[no++] = o; }
    if (PROBES && H[cur].bt.size == 0 && cur == 0) { for (n = 0; n <= 192; n++) { vop_t o = { 5, { n } }; ops[no++] = o; } }
    return no;
}
static int drv_random(unsigned long (*rnd)(void), vop_t *op)
{
    unsigned long r = rnd() % 100; int sz = (int)H[cur].bt.size;
    if (r < (unsigned long)BIAS || sz == 0) {
        int tries, n = 1;
        for (tries = 0; tries < 8; tries++) { n = 1 + (int)(rnd() % (unsigned)N); if (!held[n]) break; }
        if (held[n]) { op->k = 1; return 1; }
        op->k = 0; op->a[0] = n;
    } else if (r < 88 || BIAS > 60) op->k = 1;
    else if (r < 95) op->k = 2;
    else if (r < 96 && sz < 16) op->k = 3;
    else if (r < 98 && SWAP) op->k = 4;
    else { op->k = 5; op->a[0] = (int)(rnd() % 193); }
    return 1;
}
int main(int argc, char **argv) { return e_main(argc, argv); }
