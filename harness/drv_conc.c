/*
 * drv_conc.c — deterministic scheduler over the real src/memory.c for property C06.
 *
 * src/memory.c is compiled with -fsanitize=thread and linked WITHOUT the TSan runtime: every C11
 * atomic becomes a call to __tsan_atomic*, every plain 8-byte access a call to __tsan_read8/write8;
 * this file defines them.  Threads are ucontext coroutines; each atomic on the bookkeeping block,
 * each group of plain accesses to it, each free of a tracked block and each clear callback is a
 * scheduling point: the thread announces what it is about to do and yields to the scheduler.
 * sched_yield() (the spin in cstl_weak_ptr_lock) parks the thread until another thread has moved.
 *
 * Schedules are enumerated depth first with visited-state pruning (threads are deterministic, so a
 * thread's local state is a function of what it has observed; the key is the shared words, block
 * liveness and per-thread observation hashes).  Every run (a prefix of a behaviour) is written as
 * NDJSON events, judged by TLC (spec/TraceConc.tla).
 *
 * usage: drv_conc <out> <clr 0|1> <maxruns> <scenario>...     scenario = nt:role,op[+op]:role,op[+op][:role,op[+op]]
 *        maxruns > 0: exhaustive enumeration (at most maxruns runs per scenario)
 *        maxruns < 0: -maxruns randomly sampled schedules per scenario (seed from VERIF_SEED), no pruning
 *        roles: owner weak both none     ops: reset1 share wfrom lock wreset get1 uniq1 none
 */
#define _GNU_SOURCE
#include <stdio.h>
#include <stdlib.h>
#include <string.h>
#include <stdint.h>
#include <ucontext.h>
#include <signal.h>
#include <setjmp.h>
#include <unistd.h>
#include "cstl/memory.h"

#define MAXT 4
#define STK (256 * 1024)
#define MAXDEPTH 400
void *__real_malloc(size_t); void __real_free(void *);

/* ---- scenario ---- */
static int NT, HASCLR;
#define MAXOPS 3
static char role[MAXT][8], op0[MAXT][MAXOPS][8];
static int nop0[MAXT];                 /* operations before the clean-up */
static const char *prog[MAXT][MAXOPS + 3];
static cstl_shared_ptr_t S1[MAXT], S2[MAXT], SP0;
static cstl_weak_ptr_t W[MAXT];

/* ---- tracked blocks: 0 = bookkeeping block ("d"), 1 = managed memory ("m") ---- */
static struct { unsigned char *p; size_t n; int live; } blk[2]; static int nblk;
static int in_threads;                 /* scheduling is active */
static int clrs, dfrees, violations_local;
static FILE *out;

/* ---- coroutines ---- */
static ucontext_t sched_ctx, tctx[MAXT];
static char *stk[MAXT];
static int cur = -1, done[MAXT], parked[MAXT], holds[MAXT];
static struct { char kind[8]; long off; } pend[MAXT];
static unsigned long lhash[MAXT];
static int last_plain[MAXT];           /* 0 none, 1 read group, 2 write group: consecutive plain accesses coalesce */
static long nev_run;

static void mix(int t, unsigned long v) { lhash[t] = (lhash[t] ^ v) * 1099511628211UL + 0x9E37; }
static int blk_of(const void *a, long *off)
{
    int i;
    for (i = 0; i < nblk; i++)
        if ((const unsigned char *)a >= blk[i].p && (const unsigned char *)a < blk[i].p + blk[i].n) { *off = (const unsigned char *)a - blk[i].p; return i; }
    return -1;
}
static void log_pend_others(int t)
{
    int u, first = 1;
    fputs(",\"pend\":[", out);
    for (u = 0; u < NT; u++) if (u != t && !done[u] && pend[u].kind[0]) { fprintf(out, "%s[%d,\"%s\",%ld]", first ? "" : ",", u + 1, pend[u].kind, pend[u].off); first = 0; }
    fputs("]", out);
}
/* announce the next event and hand control to the scheduler; on return perform + log it */
static void sched_point(const char *kind, long off)
{
    int t = cur;
    snprintf(pend[t].kind, sizeof pend[t].kind, "%s", kind); pend[t].off = off;
    swapcontext(&tctx[t], &sched_ctx);
    cur = t;
}
static void log_ev(const char *kind, long off, long old)
{
    int t = cur, u;
    fprintf(out, "{\"e\":\"ev\",\"t\":%d,\"k\":\"%s\",\"o\":%ld,\"old\":%ld", t + 1, kind, off, old);
    log_pend_others(t);
    fputs("}\n", out);
    pend[t].kind[0] = 0;
    mix(t, (unsigned long)old * 31 + (unsigned long)off * 7 + (unsigned long)kind[0] + ((unsigned long)kind[1] << 8));
    nev_run++;
    for (u = 0; u < NT; u++) if (u != t) parked[u] = 0;      /* somebody moved: spinners may try again */
}

/* ---- allocator ---- */
void *__wrap_malloc(size_t n)
{
    void *p = __real_malloc(n);
    if (cur == -2 && nblk < 2) { blk[nblk].p = p; blk[nblk].n = n; blk[nblk].live = 1; nblk++; }   /* set-up phase */
    return p;
}
void __wrap_free(void *p)
{
    long o; int b;
    if (!p) return;
    b = blk_of(p, &o);
    if (b < 0 || o != 0) { __real_free(p); return; }
    if (in_threads && cur >= 0) { last_plain[cur] = 0; sched_point("free", b == 1 ? -1 : -2); log_ev("free", b == 1 ? -1 : -2, blk[b].live ? 0 : 1); }
    if (!blk[b].live) dfrees++;
    blk[b].live = 0;             /* quarantined: later accesses are observed, not fatal */
}
static void clr_cb(void *p, void *x)
{
    (void)p; (void)x;
    if (in_threads && cur >= 0) { last_plain[cur] = 0; sched_point("clr", 0); log_ev("clr", 0, clrs); }
    clrs++;
}

/* ---- TSan ABI ---- */
void __tsan_init(void) { }
void __tsan_func_entry(void *p) { (void)p; }
void __tsan_func_exit(void) { }
static void plain(void *a, int wr)
{
    long o; int b;
    if (!in_threads || cur < 0) return;
    b = blk_of(a, &o);
    if (b != 0) return;                                   /* only the bookkeeping block is shared state */
    if (last_plain[cur] == (wr ? 2 : 1)) return;          /* same group */
    last_plain[cur] = wr ? 2 : 1;
    sched_point(wr ? "pw" : "pr", 24);
    log_ev(wr ? "pw" : "pr", 24, blk[0].live ? 0 : 1);
}
void __tsan_read8(void *a) { plain(a, 0); }
void __tsan_write8(void *a) { plain(a, 1); }
void __tsan_read4(void *a) { plain(a, 0); }
void __tsan_write4(void *a) { plain(a, 1); }
void __tsan_read1(void *a) { plain(a, 0); }
void __tsan_write1(void *a) { plain(a, 1); }
void __tsan_read2(void *a) { plain(a, 0); }
void __tsan_write2(void *a) { plain(a, 1); }
static long at_off(const volatile void *a) { long o = -9; (void)blk_of((const void *)a, &o); return o; }
#define ATOMIC_PROLOGUE(kind) do { if (in_threads && cur >= 0) { last_plain[cur] = 0; sched_point(kind, at_off(a)); } } while (0)
long __tsan_atomic64_fetch_add(volatile long *a, long v, int mo)
{ long o; (void)mo; ATOMIC_PROLOGUE("fadd"); o = *a; *a = o + v; if (in_threads && cur >= 0) log_ev("fadd", at_off(a), o); return o; }
long __tsan_atomic64_fetch_sub(volatile long *a, long v, int mo)
{ long o; (void)mo; ATOMIC_PROLOGUE("fsub"); o = *a; *a = o - v; if (in_threads && cur >= 0) log_ev("fsub", at_off(a), o); return o; }
long __tsan_atomic64_load(const volatile long *a, int mo)
{ long o; (void)mo; ATOMIC_PROLOGUE("load"); o = *a; if (in_threads && cur >= 0) log_ev("load", at_off(a), o); return o; }
void __tsan_atomic64_store(volatile long *a, long v, int mo)
{ long o; (void)mo; ATOMIC_PROLOGUE("store"); o = *a; *a = v; if (in_threads && cur >= 0) log_ev("store", at_off(a), o); }
/* the rest of the atomic entry points, so that a library that synchronises differently (compare-and-swap loops,
 * flags of another width, fences) still links and is scheduled and observed the same way */
#define TSAN_RMW(N, T, NAME, KIND, EXPR) \
T __tsan_atomic##N##_##NAME(volatile T *a, T v, int mo) \
{ T o; (void)mo; ATOMIC_PROLOGUE(KIND); o = *a; *a = (T)(EXPR); if (in_threads && cur >= 0) log_ev(KIND, at_off(a), (long)o); return o; }
#define TSAN_CAS(N, T) \
int __tsan_atomic##N##_compare_exchange_strong(volatile T *a, T *c, T v, int mo, int fmo) \
{ T o; (void)mo; (void)fmo; ATOMIC_PROLOGUE("cas"); o = *a; if (o == *c) *a = v; if (in_threads && cur >= 0) log_ev("cas", at_off(a), (long)o); if (o == *c) return 1; *c = o; return 0; } \
int __tsan_atomic##N##_compare_exchange_weak(volatile T *a, T *c, T v, int mo, int fmo) { return __tsan_atomic##N##_compare_exchange_strong(a, c, v, mo, fmo); } \
T __tsan_atomic##N##_compare_exchange_val(volatile T *a, T c, T v, int mo, int fmo) { T e = c; __tsan_atomic##N##_compare_exchange_strong(a, &e, v, mo, fmo); return e; }
#define TSAN_LDST(N, T) \
T __tsan_atomic##N##_load(const volatile T *a, int mo) \
{ T o; (void)mo; ATOMIC_PROLOGUE("load"); o = *a; if (in_threads && cur >= 0) log_ev("load", at_off(a), (long)o); return o; } \
void __tsan_atomic##N##_store(volatile T *a, T v, int mo) \
{ T o; (void)mo; ATOMIC_PROLOGUE("store"); o = *a; *a = v; if (in_threads && cur >= 0) log_ev("store", at_off(a), (long)o); }
#define TSAN_OPS(N, T) \
    TSAN_RMW(N, T, fetch_and, "fand", o & v) TSAN_RMW(N, T, fetch_or, "for", o | v) TSAN_RMW(N, T, fetch_xor, "fxor", o ^ v) \
    TSAN_RMW(N, T, fetch_nand, "fnand", ~(o & v)) TSAN_CAS(N, T)
TSAN_OPS(8, char) TSAN_OPS(16, short) TSAN_OPS(32, int) TSAN_OPS(64, long)
TSAN_RMW(8, char, fetch_add, "fadd", o + v) TSAN_RMW(8, char, fetch_sub, "fsub", o - v)
char __tsan_atomic8_load(const volatile char *a, int mo)
{ char o; (void)mo; ATOMIC_PROLOGUE("load"); o = *a; if (in_threads && cur >= 0) log_ev("load", at_off(a), (long)o); return o; }
TSAN_RMW(16, short, fetch_add, "fadd", o + v) TSAN_RMW(16, short, fetch_sub, "fsub", o - v) TSAN_RMW(16, short, exchange, "xchg", v) TSAN_LDST(16, short)
TSAN_RMW(32, int, fetch_add, "fadd", o + v) TSAN_RMW(32, int, fetch_sub, "fsub", o - v) TSAN_RMW(32, int, exchange, "xchg", v) TSAN_LDST(32, int)
TSAN_RMW(64, long, exchange, "xchg", v)
void __tsan_atomic_thread_fence(int mo) { (void)mo; }
void __tsan_atomic_signal_fence(int mo) { (void)mo; }
void __tsan_read16(void *a) { plain(a, 0); }
void __tsan_write16(void *a) { plain(a, 1); }
void __tsan_unaligned_read2(void *a) { plain(a, 0); } void __tsan_unaligned_write2(void *a) { plain(a, 1); }
void __tsan_unaligned_read4(void *a) { plain(a, 0); } void __tsan_unaligned_write4(void *a) { plain(a, 1); }
void __tsan_unaligned_read8(void *a) { plain(a, 0); } void __tsan_unaligned_write8(void *a) { plain(a, 1); }
void __tsan_read_range(void *a, unsigned long n) { (void)n; plain(a, 0); }
void __tsan_write_range(void *a, unsigned long n) { (void)n; plain(a, 1); }
char __tsan_atomic8_exchange(volatile char *a, char v, int mo)
{
    char o; (void)mo;
    ATOMIC_PROLOGUE("xchg");
    o = *a; *a = v;
    if (in_threads && cur >= 0) { log_ev("xchg", at_off(a), o); if (!o) holds[cur] = 1; }
    return o;
}
void __tsan_atomic8_store(volatile char *a, char v, int mo)
{ char o; (void)mo; ATOMIC_PROLOGUE("store"); o = *a; *a = v; if (in_threads && cur >= 0) { log_ev("store", at_off(a), o); holds[cur] = 0; } }
int sched_yield(void) { if (in_threads && cur >= 0) parked[cur] = 1; return 0; }

/* ---- thread bodies ---- */
static int nonnull(const cstl_shared_ptr_t *p) { return p->data.ptr != NULL; }
static void do_op(int t, const char *op)
{
    fprintf(out, "{\"e\":\"opstart\",\"t\":%d,\"op\":\"%s\"}\n", t + 1, op);
    last_plain[t] = 0;
    if (!strcmp(op, "reset1")) cstl_shared_ptr_reset(&S1[t]);
    else if (!strcmp(op, "reset2")) cstl_shared_ptr_reset(&S2[t]);
    else if (!strcmp(op, "wreset")) cstl_weak_ptr_reset(&W[t]);
    else if (!strcmp(op, "share")) cstl_shared_ptr_share(&S1[t], &S2[t]);
    else if (!strcmp(op, "wfrom")) cstl_weak_ptr_from(&W[t], &S1[t]);
    else if (!strcmp(op, "lock")) cstl_weak_ptr_lock(&W[t], &S2[t]);
    else if (!strcmp(op, "get1")) (void)cstl_shared_ptr_get(&S1[t]);
    else if (!strcmp(op, "uniq1")) (void)cstl_shared_ptr_unique(&S1[t]);
    cur = t;
    fprintf(out, "{\"e\":\"opend\",\"t\":%d,\"op\":\"%s\",\"s1\":%s,\"s2\":%s,\"w\":%s}\n", t + 1, op,
            nonnull(&S1[t]) ? "true" : "false", nonnull(&S2[t]) ? "true" : "false", nonnull(&W[t]) ? "true" : "false");
    mix(t, 0xABCD);
}
static void tramp(int t)
{
    int i;
    cur = t;
    for (i = 0; i < nop0[t] + 3; i++) do_op(t, prog[t][i]);
    done[t] = 1; pend[t].kind[0] = 0;
    swapcontext(&tctx[t], &sched_ctx);
}

/* ---- DFS over schedules with visited-state pruning ---- */
#define VSZ (1 << 22)
static unsigned long *visited; static size_t nvisited;
static int vis_test_set(unsigned long k)
{
    size_t h = (size_t)(k * 0x9E3779B97F4A7C15UL >> 40) & (VSZ - 1);
    if (k == 0) k = 1;
    while (visited[h]) { if (visited[h] == k) return 1; h = (h + 1) & (VSZ - 1); }
    visited[h] = k; nvisited++;
    return 0;
}
static unsigned long state_key(void)
{
    unsigned long k = 1469598103934665603UL; int t;
#define MIXK(v) do { k = (k ^ (unsigned long)(v)) * 1099511628211UL; } while (0)
    if (blk[0].p) { MIXK(((long *)blk[0].p)[0]); MIXK(((long *)blk[0].p)[1]); MIXK(blk[0].p[16]); }
    MIXK(blk[0].live); MIXK(blk[1].live); MIXK(clrs); MIXK(dfrees);
    for (t = 0; t < NT; t++) { MIXK(done[t]); MIXK(parked[t]); MIXK(holds[t]); MIXK(lhash[t]); MIXK(pend[t].kind[0]); MIXK(pend[t].kind[1]); MIXK(pend[t].off); }
    return k;
}
typedef struct { int len; unsigned char c[MAXDEPTH]; } sched_t;
static sched_t *stack; static size_t nstack, capstack;
static void push(const sched_t *s) { if (nstack == capstack) { capstack = capstack ? capstack * 2 : 1024; stack = realloc(stack, capstack * sizeof *stack); } stack[nstack++] = *s; }

static void setup(void)
{
    int t;
    nblk = 0; clrs = 0; dfrees = 0; in_threads = 0; nev_run = 0;
    cur = -2;
    cstl_shared_ptr_init(&SP0);
    cstl_shared_ptr_alloc(&SP0, 32, HASCLR ? clr_cb : NULL);
    cur = -1;
    for (t = 0; t < NT; t++) {
        cstl_shared_ptr_init(&S1[t]); cstl_shared_ptr_init(&S2[t]); cstl_weak_ptr_init(&W[t]);
        if (!strcmp(role[t], "owner") || !strcmp(role[t], "both")) cstl_shared_ptr_share(&SP0, &S1[t]);
        if (!strcmp(role[t], "weak") || !strcmp(role[t], "both")) cstl_weak_ptr_from(&W[t], &SP0);
        done[t] = 0; parked[t] = 0; holds[t] = 0; lhash[t] = 0x1234 + (unsigned long)t; last_plain[t] = 0; pend[t].kind[0] = 0;
    }
    cstl_shared_ptr_reset(&SP0);       /* only the threads' own objects refer to the allocation now */
}
static void teardown(void)
{
    int i;
    for (i = 0; i < nblk; i++) { __real_free(blk[i].p); blk[i].p = NULL; }
    nblk = 0;
}
static sigjmp_buf crashjmp;
static void oncrash(int s) { (void)s; siglongjmp(crashjmp, 1); }

/* one run following `pre`, then the first enabled thread each time; returns 1 if it ran to the end */
static long nruns, nevents, npruned, nhangs, maxevents = 6000000;   /* a changed library may have far more schedules: bound the trace */
static int random_mode; static unsigned long rs = 88172645463325252UL;
static unsigned long rnd(void) { rs ^= rs << 13; rs ^= rs >> 7; rs ^= rs << 17; return rs; }
static void run(const sched_t *pre, const char *scen)
{
    int t, depth = 0, i;
    sched_t cur_s; cur_s.len = 0;
    setup();
    fprintf(out, "{\"e\":\"reset\",\"nt\":%d,\"clr\":%s,\"scen\":\"%s\",\"roles\":[", NT, HASCLR ? "true" : "false", scen);
    for (t = 0; t < NT; t++) fprintf(out, "%s\"%s\"", t ? "," : "", role[t]);
    fputs("],\"progs\":[", out);
    for (t = 0; t < NT; t++) {
        fprintf(out, "%s[", t ? "," : "");
        for (i = 0; i < nop0[t]; i++) fprintf(out, "%s\"%s\"", i ? "," : "", op0[t][i]);
        fputc(']', out);
    }
    fprintf(out, "],\"mem\":%s,\"clrs\":%d}\n", blk[1].live ? "true" : "false", clrs);
    for (t = 0; t < NT; t++) { getcontext(&tctx[t]); tctx[t].uc_stack.ss_sp = stk[t]; tctx[t].uc_stack.ss_size = STK; tctx[t].uc_link = &sched_ctx; makecontext(&tctx[t], (void (*)(void))tramp, 1, t); }
    in_threads = 1;
    /* run every thread up to its first scheduling point */
    for (t = 0; t < NT; t++) { cur = t; swapcontext(&sched_ctx, &tctx[t]); }
    for (;;) {
        int en[MAXT], ne = 0, c;
        for (t = 0; t < NT; t++) if (!done[t] && !parked[t]) en[ne++] = t;
        if (ne == 0) {
            int any = 0;
            for (t = 0; t < NT; t++) if (!done[t]) any = 1;
            if (!any) break;
            fprintf(out, "{\"e\":\"hang\"}\n"); nhangs++; goto out;        /* everybody left is spinning */
        }
        if (depth >= MAXDEPTH - 1) { fprintf(out, "{\"e\":\"hang\"}\n"); nhangs++; goto out; }
        if (random_mode) c = en[rnd() % (unsigned long)ne];
        else if (depth >= pre->len) {
            /* beyond the prescribed prefix: a state seen before needs no second expansion */
            if (vis_test_set(state_key())) { npruned++; goto out; }
            for (i = 1; i < ne; i++) { sched_t s = cur_s; s.c[s.len++] = (unsigned char)en[i]; push(&s); }
            c = en[0];
        } else c = pre->c[depth];
        cur_s.c[cur_s.len++] = (unsigned char)c; depth++;
        cur = c;
        swapcontext(&sched_ctx, &tctx[c]);
        nevents++;
    }
    {
        int live = blk[0].live + blk[1].live;
        fprintf(out, "{\"e\":\"done\",\"live\":%d,\"clrs\":%d,\"dfrees\":%d,\"hard\":%ld,\"soft\":%ld,\"lock\":%d}\n", live, clrs, dfrees,
                blk[0].p ? ((long *)blk[0].p)[0] : -1, blk[0].p ? ((long *)blk[0].p)[1] : -1, blk[0].p ? blk[0].p[16] : -1);
    }
out:
    in_threads = 0; cur = -1;
    teardown();
    nruns++;
}

int main(int argc, char **argv)
{
    long maxruns; int a, t;
    static const char *cleanup[3] = { "reset1", "reset2", "wreset" };
    if (argc < 5) { fprintf(stderr, "usage: drv_conc <out> <clr> <maxruns> <scenario>...\n"); return 64; }
    out = fopen(argv[1], "w"); if (!out) return 73;
    { static char obuf[1 << 20]; setvbuf(out, obuf, _IOFBF, sizeof obuf); }
    HASCLR = atoi(argv[2]); maxruns = atol(argv[3]); random_mode = maxruns < 0;
    if (getenv("VERIF_MAX_EVENTS")) maxevents = atol(getenv("VERIF_MAX_EVENTS"));
    if (getenv("VERIF_SEED")) rs ^= strtoul(getenv("VERIF_SEED"), NULL, 10) * 0x9E3779B97F4A7C15UL;
    visited = __real_malloc(sizeof(unsigned long) * VSZ);
    for (t = 0; t < MAXT; t++) stk[t] = __real_malloc(STK);
    signal(SIGSEGV, oncrash); signal(SIGABRT, oncrash); signal(SIGBUS, oncrash);
    fprintf(out, "{\"e\":\"hdr\",\"id\":0}\n");
    for (a = 4; a < argc; a++) {
        char buf[256], *tok, *save = NULL; long runs0 = nruns;
        snprintf(buf, sizeof buf, "%s", argv[a]);
        tok = strtok_r(buf, ":", &save); NT = atoi(tok);
        for (t = 0; t < NT; t++) {
            char *comma;
            tok = strtok_r(NULL, ":", &save); if (!tok) return 64;
            comma = strchr(tok, ','); if (!comma) return 64;
            *comma = 0;
            snprintf(role[t], sizeof role[t], "%s", tok);
            {   /* op1[+op2[+op3]] */
                char *o = comma + 1, *plus; int k = 0;
                while (o && k < MAXOPS) {
                    plus = strchr(o, '+'); if (plus) *plus = 0;
                    snprintf(op0[t][k], sizeof op0[t][k], "%s", o); prog[t][k] = op0[t][k]; k++;
                    o = plus ? plus + 1 : NULL;
                }
                nop0[t] = k;
                prog[t][k] = cleanup[0]; prog[t][k + 1] = cleanup[1]; prog[t][k + 2] = cleanup[2];
            }
        }
        memset(visited, 0, sizeof(unsigned long) * VSZ); nvisited = 0; nstack = 0;
        { sched_t empty; empty.len = 0; push(&empty); }
        while ((random_mode || nstack > 0) && nruns - runs0 < (maxruns < 0 ? -maxruns : maxruns) && nevents < maxevents) {
            sched_t s; if (random_mode) s.len = 0; else s = stack[--nstack];
            if (sigsetjmp(crashjmp, 1) == 0) run(&s, argv[a]);
            else { fprintf(out, "\n{\"e\":\"crash\"}\n"); in_threads = 0; cur = -1; nruns++; }
        }
        fflush(out);
    }
    fclose(out);
    printf("{\"runs\":%ld,\"events\":%ld,\"pruned\":%ld,\"hangs\":%ld,\"truncated\":%s}\n", nruns, nevents, npruned, nhangs, nevents >= maxevents ? "true" : "false");
    return 0;
}
