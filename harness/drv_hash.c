/*
 * drv_hash.c — conformance driver for src/hash.c (incrementally rehashed table).
 *
 * scope args: <keys e.g. 0112> <maxb> <nfuncs 2|3> <bad 0|1> <swap 0|1> <faults 0|1> [probes 0|1|2]
 *
 * ops:  0 resize(cnt, f, allocfail)   1 rehash          2 shrink(allocfail)
 *       3 insert(e)                   4 find(k, mode, x) 5 erase(e)
 *       6 foreach(stop, eraseVisited) 7 foreach_const(stop)
 *       8 clear(withcb)               9 swap            10 stat (size, load)
 *
 * hash function ids: 0 NULL, 1 k%m, 2 (k/2)%m, 3 cstl_hash_mul (what a NULL
 * function means on the first resize), 4/5/6 bad functions returning m, 2^32 + k%m,
 * SIZE_MAX for the key BADKEY (k%m otherwise).  Every call the table makes to
 * a hash function is logged as ["h", fid, k, m, r].
 */
#include "alloc.h"
#include "cstl/hash.h"

#define MAXE 256
#define BADKEY 1
/* two node members: the two table objects are configured with different node offsets, so swapping the tables has
 * to carry the configuration along with the contents */
struct el { int id; struct cstl_hash_node hn; long pad; struct cstl_hash_node hn2; };
#define POISON_NODES(i) do { memset(&pool[i].hn, 0xA5, sizeof pool[i].hn); memset(&pool[i].hn2, 0xA5, sizeof pool[i].hn2); \
                             pool[i].hn.key = keyof[i]; pool[i].hn2.key = keyof[i]; } while (0)
static struct el pool[MAXE + 1];
static size_t keyof[MAXE + 1];
static int NE, MAXB, NF, BAD, SWAP, FAULTS, PROBES = 2, MAXK;
static struct cstl_hash T[2];
static int cur;
static unsigned char held[MAXE + 1];

static void logh(int fid, size_t k, size_t m, size_t r)
{
    char rb[40];
    /* TLC integers are 32-bit: any result >= 2^30 is logged as -1 ("huge"), which can
     * never alias an in-range value */
    if (r < ((size_t)1 << 30)) snprintf(rb, sizeof rb, "%zu", r); else snprintf(rb, sizeof rb, "-1");
    ev_add("[\"h\",%d,%zu,%zu,%s]", fid, k, m, rb);
}
static size_t h1(size_t k, size_t m) { size_t r = k % m; logh(1, k, m, r); return r; }
static size_t h2(size_t k, size_t m) { size_t r = (k / 2) % m; logh(2, k, m, r); return r; }
static size_t hb4(size_t k, size_t m) { size_t r = k == BADKEY ? m : k % m; logh(4, k, m, r); return r; }
/* a value whose low 32 bits are in range: wrong only for code that looks at all of the size_t */
static size_t hb5(size_t k, size_t m) { size_t r = k == BADKEY ? ((size_t)1 << 32) + k % m : k % m; logh(5, k, m, r); return r; }
static size_t hb6(size_t k, size_t m) { size_t r = k == BADKEY ? SIZE_MAX : k % m; logh(6, k, m, r); return r; }
static cstl_hash_func_t *fn_of(int f)
{
    switch (f) { case 1: return h1; case 2: return h2; case 3: return cstl_hash_mul;
                 case 4: return hb4; case 5: return hb5; case 6: return hb6; default: return NULL; }
}
static int fid_of(cstl_hash_func_t *f)
{
    if (!f) return 0;
    if (f == h1) return 1; if (f == h2) return 2; if (f == cstl_hash_mul) return 3;
    if (f == hb4) return 4; if (f == hb5) return 5; if (f == hb6) return 6;
    return -1;
}
static int id_of_el(const void *e)
{
    uintptr_t d;
    if (!e) return 0;
    if ((uintptr_t)e < (uintptr_t)&pool[1] || (uintptr_t)e > (uintptr_t)&pool[NE]) return -1;
    d = (uintptr_t)e - (uintptr_t)&pool[0];
    if (d % sizeof(struct el)) return -1;
    return (int)(d / sizeof(struct el));
}
static int id_of_hn(const struct cstl_hash_node *hn)
{
    if (!hn) return 0;
    return id_of_el((const char *)hn - T[cur].off);        /* elements hang on the member the current table is configured with */
}

static void drv_setup(int argc, char **argv)
{
    int i; const char *keys;
    if (argc < 6) { fprintf(stderr, "drv_hash: scope = <keys> <maxb> <nfuncs> <bad> <swap> <faults> [probes]\n"); exit(64); }
    keys = argv[0]; NE = (int)strlen(keys); MAXB = atoi(argv[1]); NF = atoi(argv[2]);
    BAD = atoi(argv[3]); SWAP = atoi(argv[4]); FAULTS = atoi(argv[5]);
    if (argc > 6) PROBES = atoi(argv[6]);
    if (NE > MAXE) exit(64);
    for (i = 1; i <= NE; i++) {
        keyof[i] = (size_t)(keys[i - 1] >= 'a' ? keys[i - 1] - 'a' + 10 : keys[i - 1] - '0');
        pool[i].id = i;
        if ((int)keyof[i] > MAXK) MAXK = (int)keyof[i];
    }
}
static void drv_header(jb_t *b)
{
    int i, k, m;
    jb_printf(b, "\"NE\":%d,\"maxb\":%d,\"funcs\":[", NE, MAXB);         /* the hash function ids a resize is tried with */
    for (i = 0; i <= (BAD ? 6 : NF); i++) if (i != 3) jb_printf(b, "%s%d", i ? "," : "", i);
    jb_puts(b, "],\"key\":[");
    for (i = 1; i <= NE; i++) jb_printf(b, "%s%zu", i > 1 ? "," : "", keyof[i]);
    /* table of cstl_hash_mul over the scope's keys and bucket counts (the model
     * cannot compute single-precision products; see C17 for the range property) */
    jb_puts(b, "],\"mul\":[");
    for (k = 0; k <= MAXK; k++) {
        jb_printf(b, "%s[", k ? "," : "");
        for (m = 1; m <= MAXB; m++) jb_printf(b, "%s%zu", m > 1 ? "," : "", cstl_hash_mul((size_t)k, (size_t)m));
        jb_puts(b, "]");
    }
    jb_puts(b, "]");
}
static void drv_reset(void)
{
    int i;
    /* the interposer owns every block the library allocated */
    a_reset();
#ifdef USE_INITIALIZER
    { struct cstl_hash x = CSTL_HASH_INITIALIZER(struct el, hn), y = CSTL_HASH_INITIALIZER(struct el, hn2); T[0] = x; T[1] = y; }
#else
    cstl_hash_init(&T[0], offsetof(struct el, hn));
    cstl_hash_init(&T[1], offsetof(struct el, hn2));
#endif
    cur = 0;
    for (i = 0; i <= NE; i++) { pool[i].hn.key = keyof[i]; pool[i].hn.next = NULL; pool[i].hn2.key = keyof[i]; pool[i].hn2.next = NULL; held[i] = 0; }
}
static void drv_aborted(void) { a_end(); }

/* ---- callbacks ---- */
static int cb_count, cb_stop, cb_accept, cb_erase;
static int find_visit(const void *e, void *p)
{
    int id = id_of_el(e);
    e_check_priv(p);
    ev_add("[\"v\",%d]", id);
    /* any non-zero result accepts the element: positive, negative, large */
    return id == cb_accept ? (id % 3 == 0 ? 65536 : id % 3 == 1 ? -1 : 1) : 0;
}
static int each_visit(void *e, void *p)
{
    int id = id_of_el(e);
    e_check_priv(p);
    cb_count++;
    ev_add("[\"v\",%d]", id);
    if (cb_erase && id > 0) {
        cstl_hash_erase(&T[cur], e);
        held[id] = 0;
        POISON_NODES(id);   /* "freed" by the callback */
    }
    return (cb_stop && cb_count == cb_stop) ? e_stopval(cb_stop) : 0;
}
static int each_visit_const(const void *e, void *p)
{
    e_check_priv(p);
    cb_count++;
    ev_add("[\"v\",%d]", id_of_el(e));
    return (cb_stop && cb_count == cb_stop) ? e_stopval(cb_stop) : 0;
}
static void clear_cb(void *e, void *p)
{
    int id = id_of_el(e);
    (void)p;
    ev_add("[\"c\",%d]", id);
    if (id > 0) {
        held[id] = 0;
        POISON_NODES(id);
    }
}

static void drv_apply(const vop_t *op, jb_t *res)
{
    struct cstl_hash *h = &T[cur];
    switch (op->k) {
    case 0:
        a_begin(op->a[2] ? 1UL : 0UL);
        cstl_hash_resize(h, (size_t)op->a[0], fn_of(op->a[1]));
        a_end();
        jb_puts(res, ",\"ret\":0");
        break;
    case 1:
        a_begin(0); cstl_hash_rehash(h); a_end();
        jb_puts(res, ",\"ret\":0");
        break;
    case 2:
        a_begin(op->a[0] ? 1UL : 0UL); cstl_hash_shrink_to_fit(h); a_end();
        jb_puts(res, ",\"ret\":0");
        break;
    case 3:
        a_begin(0); cstl_hash_insert(h, keyof[op->a[0]], &pool[op->a[0]]); a_end();
        held[op->a[0]] = 1;
        jb_puts(res, ",\"ret\":0");
        break;
    case 4: {
        void *r;
        cb_accept = op->a[2];
        a_begin(0);
        r = cstl_hash_find(h, (size_t)op->a[0], op->a[1] ? find_visit : NULL, E_PRIV);
        a_end();
        jb_printf(res, ",\"ret\":%d", id_of_el(r));
        break;
    }
    case 5:
        a_begin(0); cstl_hash_erase(h, &pool[op->a[0]]); a_end();
        held[op->a[0]] = 0;
        jb_puts(res, ",\"ret\":0");
        break;
    case 6: {
        int r;
        cb_count = 0; cb_stop = op->a[0]; cb_erase = op->a[1];
        a_begin(0); r = cstl_hash_foreach(h, each_visit, E_PRIV); a_end();
        jb_printf(res, ",\"ret\":%d", r);
        break;
    }
    case 7: {
        int r;
        cb_count = 0; cb_stop = op->a[0]; cb_erase = 0;
        a_begin(0); r = cstl_hash_foreach_const(h, each_visit_const, E_PRIV); a_end();
        jb_printf(res, ",\"ret\":%d", r);
        break;
    }
    case 8:
        a_begin(0); cstl_hash_clear(h, op->a[0] ? clear_cb : NULL); a_end();
        if (!op->a[0]) memset(held, 0, sizeof held);
        jb_puts(res, ",\"ret\":0");
        break;
    case 9:
        cstl_hash_swap(&T[0], &T[1]); cur = 1 - cur;
        jb_puts(res, ",\"ret\":0");
        break;
    case 10: {
        size_t n = cstl_hash_size(h);
        float ld = cstl_hash_load(h);
        long l6 = (ld >= 0 && ld < 2000.0f) ? (long)(ld * 1000000.0f + 0.5f) : -1;
        jb_puts(res, ",\"ret\":0,\"size\":"); jb_size(res, n);
        jb_printf(res, ",\"load6\":%ld", l6);
        break;
    }
    default: jb_puts(res, ",\"ret\":0");
    }
}

static void drv_opjson(const vop_t *op, jb_t *b)
{
    switch (op->k) {
    case 0: jb_printf(b, "\"op\":\"resize\",\"cnt\":%d,\"f\":%d,\"fail\":%s", op->a[0], op->a[1], op->a[2] ? "true" : "false"); break;
    case 1: jb_puts(b, "\"op\":\"rehash\""); break;
    case 2: jb_printf(b, "\"op\":\"shrink\",\"fail\":%s", op->a[0] ? "true" : "false"); break;
    case 3: jb_printf(b, "\"op\":\"insert\",\"e\":%d", op->a[0]); break;
    case 4: jb_printf(b, "\"op\":\"find\",\"k\":%d,\"mode\":%d,\"x\":%d", op->a[0], op->a[1], op->a[2]); break;
    case 5: jb_printf(b, "\"op\":\"erase\",\"e\":%d", op->a[0]); break;
    case 6: jb_printf(b, "\"op\":\"foreach\",\"stop\":%d,\"er\":%s", op->a[0], op->a[1] ? "true" : "false"); break;
    case 7: jb_printf(b, "\"op\":\"foreachc\",\"stop\":%d", op->a[0]); break;
    case 8: jb_printf(b, "\"op\":\"clear\",\"cb\":%s", op->a[0] ? "true" : "false"); break;
    case 9: jb_puts(b, "\"op\":\"swap\""); break;
    case 10: jb_puts(b, "\"op\":\"stat\""); break;
    default: jb_printf(b, "\"op\":\"?%d\"", op->k);
    }
}
static int drv_terminal(const vop_t *op) { (void)op; return 0; }

/* ---- canonical state: what the real struct fields say ---- */
static void drv_ser(jb_t *b)
{
    struct cstl_hash *h = &T[cur], *o = &T[1 - cur];
    int pend = h->bucket.rh.hash != NULL, bad = 0;
    size_t live = h->bucket.count, i;
    unsigned char seen[MAXE + 1];
    memset(seen, 0, sizeof seen);
    if (pend && h->bucket.rh.count > live) live = h->bucket.rh.count;
    if (live > h->bucket.capacity || (live > 0 && !h->bucket.at) || live > (size_t)MAXB + 2) { bad = 1; live = 0; }
    jb_printf(b, "{\"at\":%s,\"cap\":", h->bucket.at ? "true" : "false"); jb_size(b, h->bucket.capacity);
    jb_puts(b, ",\"count\":"); jb_size(b, h->bucket.count);
    jb_printf(b, ",\"hash\":%d,\"pend\":%s,\"rhcount\":", fid_of(h->bucket.hash), pend ? "true" : "false");
    jb_size(b, pend ? h->bucket.rh.count : 0);
    jb_puts(b, ",\"rhclean\":"); jb_size(b, pend ? h->bucket.rh.clean : 0);
    jb_printf(b, ",\"rhhash\":%d,\"n\":", pend ? fid_of(h->bucket.rh.hash) : 0); jb_size(b, h->count);
    jb_puts(b, ",\"bk\":[");
    for (i = 0; i < live; i++) {
        const struct cstl_hash_node *n = h->bucket.at[i].n; int c = 0;
        jb_printf(b, "%s{\"dirty\":%s,\"chain\":[", i ? "," : "", h->bucket.at[i].cst != h->bucket.cst ? "true" : "false");
        while (n) {
            int id = id_of_hn(n);
            if (id <= 0 || seen[id] || c > NE) { bad = 1; break; }
            seen[id] = 1;
            jb_printf(b, "%s%d", c++ ? "," : "", id);
            n = n->next;
        }
        jb_puts(b, "]}");
    }
    jb_printf(b, "],\"cur\":%d,\"oat\":%s,\"on\":", cur, o->bucket.at ? "true" : "false"); jb_size(b, o->count);
    /* the node member the table holding the contents is configured with (1: hn, 2: hn2) */
    jb_printf(b, ",\"offk\":%d", h->off == offsetof(struct el, hn) ? 1 : h->off == offsetof(struct el, hn2) ? 2 : -1);
    jb_printf(b, ",\"nlive\":%d,\"damage\":%s,\"bad\":%s}", a_live_count(), a_check() ? "true" : "false", bad ? "true" : "false");
}

static int drv_enum(vop_t *ops, int max)
{
    struct cstl_hash *h = &T[cur];
    int no = 0, c, f, e, k, j, fmax = BAD ? 6 : NF, n = (int)h->count;
    (void)max;
    for (c = 1; c <= MAXB; c++) for (f = 0; f <= fmax; f++) {
        vop_t o = { 0, { c, f, 0 } };
        if (f == 3) continue;               /* cstl_hash_mul is only reached through NULL */
        ops[no++] = o;
        if (FAULTS && f <= 1) { o.a[2] = 1; ops[no++] = o; }
    }
    { vop_t o = { 2, { 0 } }; ops[no++] = o; if (FAULTS) { o.a[0] = 1; ops[no++] = o; } }
    { vop_t o = { 8, { 1 } }; ops[no++] = o; }
    if (PROBES) { vop_t o = { 8, { 0 } }; ops[no++] = o; }      /* the clear function may be NULL */
    if (SWAP) { vop_t o = { 9, { 0 } }; ops[no++] = o; }
    if (PROBES) { vop_t o = { 7, { 0 } }; ops[no++] = o; for (j = 1; j <= n && PROBES > 1; j++) { o.a[0] = j; ops[no++] = o; } }
    if (PROBES) { vop_t o = { 10, { 0 } }; ops[no++] = o; }
    if (!h->bucket.at) return no;           /* keyed operations need a sized table */
    { vop_t o = { 1, { 0 } }; ops[no++] = o; }
    for (e = 1; e <= NE; e++) if (!held[e]) { vop_t o = { 3, { e } }; ops[no++] = o; }
    for (e = 1; e <= NE; e++) { vop_t o = { 5, { e } }; ops[no++] = o; }
    for (k = 0; k <= MAXK; k++) {
        vop_t o = { 4, { k, 0, 0 } }; ops[no++] = o;
        if (PROBES) {
            o.a[1] = 1; o.a[2] = 0; ops[no++] = o;              /* visit accepts nothing */
            for (e = 1; e <= NE; e++) if ((int)keyof[e] == k) { o.a[2] = e; ops[no++] = o; }      /* the visit function accepts element e */
        }
    }
    { vop_t o = { 6, { 0, 0 } }; ops[no++] = o; }
    if (PROBES) {
        vop_t o = { 6, { 0, 1 } }; ops[no++] = o;               /* erase every visited element */
        for (j = 1; j <= n && PROBES > 1; j++) { o.a[0] = j; o.a[1] = 0; ops[no++] = o; o.a[1] = 1; ops[no++] = o; }
    }
    return no;
}
static int drv_random(unsigned long (*rnd)(void), vop_t *op)
{
    struct cstl_hash *h = &T[cur];
    unsigned long r = rnd() % 100;
    int fmax = NF;
    if (!h->bucket.at || r < 8) {
        op->k = 0; op->a[0] = 1 + (int)(rnd() % (unsigned)MAXB); op->a[1] = (int)(rnd() % (unsigned)(fmax + 1));
        if (op->a[1] == 3) op->a[1] = 0;
        op->a[2] = FAULTS && (rnd() % 10 == 0);
        return 1;
    }
    if (r < 40) {
        int tries, e = 1;
        for (tries = 0; tries < 8; tries++) { e = 1 + (int)(rnd() % (unsigned)NE); if (!held[e]) break; }
        if (held[e]) { op->k = 5; op->a[0] = e; } else { op->k = 3; op->a[0] = e; }
    } else if (r < 62) { op->k = 5; op->a[0] = 1 + (int)(rnd() % (unsigned)NE);
    } else if (r < 82) {
        op->k = 4; op->a[0] = (int)(rnd() % (unsigned)(MAXK + 1)); op->a[1] = (int)(rnd() % 2);
        op->a[2] = op->a[1] && (rnd() & 1) ? 1 + (int)(rnd() % (unsigned)NE) : 0;
        if (op->a[2] && (rnd() & 3)) { int e, tries; for (tries = 0; tries < 6; tries++) { e = 1 + (int)(rnd() % (unsigned)NE); if ((int)keyof[e] == op->a[0]) { op->a[2] = e; break; } } }   /* mostly: an element that has the key */
    } else if (r < 85) { op->k = 1;
    } else if (r < 88) { op->k = 2; op->a[0] = FAULTS && (rnd() % 4 == 0);
    } else if (r < 91) { op->k = 7; op->a[0] = (rnd() & 1) ? 0 : (int)(rnd() % (h->count + 1));
    } else if (r < 94) { op->k = 6; op->a[0] = (rnd() & 1) ? 0 : (int)(rnd() % (h->count + 1)); op->a[1] = (int)(rnd() % 4 == 0);
    } else if (r < 96) { op->k = 10;
    } else if (r < 97) { op->k = 8; op->a[0] = (int)(rnd() & 1) || 1;
    } else if (SWAP) { op->k = 9; } else { op->k = 10; }
    return 1;
}

int main(int argc, char **argv) { return e_main(argc, argv); }
