/*
 * engine.h — shared exploration engine for the libcstl conformance drivers.
 *
 * A driver (#include "engine.h" after defining the drv_* functions declared
 * below) exercises the real library code from /repo's working tree and
 * records every transition  {pre, op, outcome, return, events, post}  as one
 * NDJSON line.  The lines are judged by TLC against the TLA+ specifications
 * in /verif/spec (TraceX.tla).  Nothing in here decides a property.
 *
 * Modes (argv[1]):
 *   explore <out> [maxstates]      BFS to closure over canonical states; a
 *                                  state is re-reached by re-executing its op
 *                                  path from drv_reset()
 *   random  <out> <seed> <steps> [restarts]
 *                                  seeded random walk(s)
 *   replay  <in> <out>             execute op lists ("k a0 a1 a2 a3 a4 a5" per
 *                                  line, "reset" starts a new behaviour) -
 *                                  used for TLC-generated behaviours and
 *                                  violation replays
 * Remaining argv (after "--") is given to drv_setup().
 */
#ifndef VERIF_ENGINE_H
#define VERIF_ENGINE_H

#ifndef _GNU_SOURCE
#define _GNU_SOURCE
#endif
#include <stdio.h>
#include <stdlib.h>
#include <string.h>
#include <stdarg.h>
#include <stdint.h>
#include <stddef.h>
#include <signal.h>
#include <setjmp.h>
#include <unistd.h>
#include <sys/time.h>

#ifdef VERIF_WRAP_ALLOC
void *__real_malloc(size_t);
void *__real_realloc(void *, size_t);
void *__real_calloc(size_t, size_t);
void __real_free(void *);
#define e_malloc  __real_malloc
#define e_realloc __real_realloc
#define e_free    __real_free
#else
#define e_malloc  malloc
#define e_realloc realloc
#define e_free    free
#endif

#define VOP_NARGS 6
typedef struct { int k; int a[VOP_NARGS]; } vop_t;

/* ---------------------------------------------------------------- JSON buffer */
typedef struct { char *p; size_t n, cap; } jb_t;
static void jb_need(jb_t *b, size_t extra)
{
    if (b->n + extra + 1 > b->cap) {
        size_t nc = b->cap ? b->cap * 2 : 1024;
        while (nc < b->n + extra + 1) nc *= 2;
        b->p = e_realloc(b->p, nc);
        if (!b->p) { fprintf(stderr, "engine: out of memory\n"); _exit(71); }
        b->cap = nc;
    }
}
static void jb_reset(jb_t *b) { b->n = 0; jb_need(b, 1); b->p[0] = 0; }
static void jb_printf(jb_t *b, const char *fmt, ...)
    __attribute__((format(printf, 2, 3)));
static void jb_printf(jb_t *b, const char *fmt, ...)
{
    va_list ap; int n;
    jb_need(b, 256);
    va_start(ap, fmt);
    n = vsnprintf(b->p + b->n, b->cap - b->n, fmt, ap);
    va_end(ap);
    if ((size_t)n >= b->cap - b->n) {
        jb_need(b, (size_t)n + 1);
        va_start(ap, fmt);
        n = vsnprintf(b->p + b->n, b->cap - b->n, fmt, ap);
        va_end(ap);
    }
    b->n += (size_t)n;
}
static void jb_puts(jb_t *b, const char *s)
{
    size_t l = strlen(s);
    jb_need(b, l);
    memcpy(b->p + b->n, s, l + 1);
    b->n += l;
}
/* int array helper: "name":[a,b,c] */
static void jb_iarr(jb_t *b, const char *name, const int *v, int n)
{
    int i;
    jb_printf(b, "\"%s\":[", name);
    for (i = 0; i < n; i++) jb_printf(b, "%s%d", i ? "," : "", v[i]);
    jb_puts(b, "]");
}
/* a size_t that may not fit TLC's 32-bit integers: small values as numbers, anything
 * >= 2^30 as -1 (TLC cannot compare an integer with a string, and -1 can never alias
 * a legitimate size, count or index) */
static void jb_size(jb_t *b, size_t v)
{
    if (v < ((size_t)1 << 30)) jb_printf(b, "%zu", v);
    else jb_puts(b, "-1");
}
/* event list of the operation being applied (callbacks, allocator calls, hash
 * calls ...), in order; the engine appends it to the record as "ev":[...] even
 * when the operation aborted half way */
static jb_t e_ev; static int e_evn;
static const char *e_forced_outcome;
static void ev_add(const char *fmt, ...) __attribute__((format(printf, 1, 2)));
static void ev_add(const char *fmt, ...)
{
    char tmp[256]; va_list ap;
    /* a library gone wrong may call back millions of times in one operation: the record says so instead of listing them */
    if (e_evn >= 50000) { if (e_evn == 50000) { jb_printf(&e_ev, ",[\"evflood\"]"); e_evn++; e_forced_outcome = "evflood"; } return; }
    va_start(ap, fmt); vsnprintf(tmp, sizeof tmp, fmt, ap); va_end(ap);
    jb_printf(&e_ev, "%s%s", e_evn++ ? "," : "", tmp);
}

/* drop events appended since ev_mark() (set-up / tear-down of helper objects) */
static size_t ev_mark_n; static int ev_mark_c;
static void ev_mark(void) { ev_mark_n = e_ev.n; ev_mark_c = e_evn; }
static void ev_rewind(void) { e_ev.n = ev_mark_n; if (e_ev.p) e_ev.p[e_ev.n] = 0; e_evn = ev_mark_c; }

/* ---------------------------------------------------------------- driver interface */
static void drv_setup(int argc, char **argv);
static void drv_reset(void);
/* ops enabled in the current state for exploration; returns count */
static int  drv_enum(vop_t *ops, int max);
/* pick a random op in the current state (random mode); return 0 if none */
static int  drv_random(unsigned long (*rnd)(void), vop_t *op);
/* perform op on the real code; append `,"ret":..,"ev":[..]`-style members */
static void drv_apply(const vop_t *op, jb_t *res);
/* canonical JSON object of the concrete state */
static void drv_ser(jb_t *b);
/* `"op":"ins","n":3,"h":true` (no braces) */
static void drv_opjson(const vop_t *op, jb_t *b);
/* 1: do not explore beyond this op's post-state even if it succeeded */
static int  drv_terminal(const vop_t *op);
/* called after an operation was cut short by a signal (reset tracking flags) */
static void drv_aborted(void);
/* header members describing the scope: `"N":6,"key":[..]` (no braces) */
static void drv_header(jb_t *b);

/* the private pointer handed to every library call that takes one; callbacks verify they get it back */
static int e_priv_token[2];
#define E_PRIV ((void *)&e_priv_token[0])
#define E_PRIV2 ((void *)&e_priv_token[1])     /* the token a differently configured second object is registered with */
static const char *e_forced_outcome;
/* What a comparison callback returns.  The library may rely on the sign only, so the magnitude is made
 * uninformative on purpose, by a rule that is a pure function of the pair (deterministic under re-execution
 * and antisymmetric): a bare +-1, a value that shrinks as the operands move apart, the plain difference, or
 * values near the ends of the int range. */
static int e_cmp3(long a, long b)
{
    long d = a - b, m = d > 0 ? d : -d; int s = d > 0 ? 1 : -1;
    if (d == 0) return 0;
    switch ((unsigned long)(a + b) % 5) {
    case 0: return s;
    case 1: return s * (int)(1000 / m + 1);
    case 2: return s * (int)(m > 30000 ? 30000 : m);
    case 3: return s * (0x40000000 + (int)(m & 0xffff));      /* any int of the right sign: also ones whose product overflows */
    default: return s * 0x7fffffff;
    }
}
/* what a visit callback returns when it asks to stop at its k-th call: any non-zero value must stop the walk
 * and be handed back unchanged, so sign and size vary with k (the models: StopVal) */
static int e_stopval(int k) { return k % 3 == 1 ? 100 + k : k % 3 == 2 ? -(100 + k) : (k % 2 ? 1 : -1); }
static void e_check_priv(const void *p) { if (p != E_PRIV) { e_forced_outcome = "badpriv"; } }
static void e_check_priv2(const void *p) { if (p != E_PRIV2) { e_forced_outcome = "badpriv"; } }

/* ---------------------------------------------------------------- crash capture */
static sigjmp_buf e_jmp;
static volatile sig_atomic_t e_in_apply;
static const char *e_outcome;
static int e_hang_secs = 5;

static void e_sig(int sig)
{
    if (!e_in_apply) {
        static const char msg[] = "engine: fatal signal outside an operation\n";
        ssize_t r = write(2, msg, sizeof msg - 1); (void)r;
        _exit(70);
    }
    e_in_apply = 0;
    siglongjmp(e_jmp, sig);
}
static void e_install(void)
{
    static char altstack[1 << 16];
    stack_t ss; struct sigaction sa; int sigs[] = { SIGSEGV, SIGBUS, SIGFPE, SIGABRT, SIGALRM, SIGPROF, SIGILL };
    size_t i;
    ss.ss_sp = altstack; ss.ss_size = sizeof altstack; ss.ss_flags = 0;
    sigaltstack(&ss, NULL);
    memset(&sa, 0, sizeof sa);
    sa.sa_handler = e_sig;
    sa.sa_flags = SA_ONSTACK | SA_NODEFER;
    sigemptyset(&sa.sa_mask);
    for (i = 0; i < sizeof sigs / sizeof sigs[0]; i++) sigaction(sigs[i], &sa, NULL);
}
static void e_timer(int secs)
{
    struct itimerval it; memset(&it, 0, sizeof it);
    /* a spinning call burns CPU time: the limit is on the CPU time of this process, so that a busy machine does not
     * look like a hang; a generous wall-clock limit catches a call that blocks */
    it.it_value.tv_sec = secs;
    setitimer(ITIMER_PROF, &it, NULL);
    it.it_value.tv_sec = secs ? secs * 40 : 0;
    setitimer(ITIMER_REAL, &it, NULL);
}

/* a wild write by the library can scribble over the event buffer: never emit
 * bytes that would break the NDJSON line */
static const char *e_ev_clean(void)
{
    size_t i;
    if (e_ev.n != strlen(e_ev.p)) return "\"garbled\"";
    for (i = 0; i < e_ev.n; i++) if (e_ev.p[i] < 0x20 || e_ev.p[i] > 0x7e) return "\"garbled\"";
    return e_ev.p;
}
/* run drv_apply under protection; returns outcome string */
static const char *e_apply(const vop_t *op, jb_t *res)
{
    int sig;
    e_forced_outcome = NULL;
    jb_reset(&e_ev); e_evn = 0;
    sig = sigsetjmp(e_jmp, 1);
    if (sig == 0) {
        e_timer(e_hang_secs);
        e_in_apply = 1;
        drv_apply(op, res);
        e_in_apply = 0;
        e_timer(0);
        jb_printf(res, ",\"ev\":[%s]", e_ev_clean());
        return e_forced_outcome ? e_forced_outcome : "ok";
    }
    e_timer(0);
    drv_aborted();
    jb_reset(res);            /* members written before the jump are dropped */
    jb_printf(res, ",\"ev\":[%s]", e_ev_clean());
    switch (sig) {
    case SIGABRT: return "abort";
    case SIGALRM: case SIGPROF: return "hang";
    case SIGFPE:  return "fpe";
    default:      return "segv";
    }
}
static int e_is_fatal(const char *outcome)
{
    return strcmp(outcome, "ok") != 0 && strcmp(outcome, "abort") != 0;
}

/* ---------------------------------------------------------------- state store */
typedef struct { char *canon; int parent; vop_t op; int depth; } est_t;
static est_t *e_st; static size_t e_ns, e_cap;
static int *e_ht; static size_t e_hsz;

static unsigned long e_hash(const char *s)
{
    unsigned long h = 1469598103934665603UL;
    while (*s) { h ^= (unsigned char)*s++; h *= 1099511628211UL; }
    return h;
}
static void e_ht_insert_raw(int idx)
{
    size_t h = e_hash(e_st[idx].canon) & (e_hsz - 1);
    while (e_ht[h] >= 0) h = (h + 1) & (e_hsz - 1);
    e_ht[h] = idx;
}
static int e_lookup(const char *c)
{
    size_t h = e_hash(c) & (e_hsz - 1);
    while (e_ht[h] >= 0) {
        if (!strcmp(e_st[e_ht[h]].canon, c)) return e_ht[h];
        h = (h + 1) & (e_hsz - 1);
    }
    return -1;
}
static int e_add(const char *c, int parent, const vop_t *op)
{
    size_t i, l;
    if (e_ns == e_cap) {
        e_cap = e_cap ? e_cap * 2 : 1024;
        e_st = e_realloc(e_st, e_cap * sizeof *e_st);
    }
    if ((e_ns + 1) * 2 > e_hsz) {
        e_hsz = e_hsz ? e_hsz * 4 : (1 << 12);
        e_free(e_ht);
        e_ht = e_malloc(e_hsz * sizeof *e_ht);
        for (i = 0; i < e_hsz; i++) e_ht[i] = -1;
        for (i = 0; i < e_ns; i++) e_ht_insert_raw((int)i);
    }
    l = strlen(c);
    e_st[e_ns].canon = e_malloc(l + 1);
    memcpy(e_st[e_ns].canon, c, l + 1);
    e_st[e_ns].parent = parent;
    if (op) e_st[e_ns].op = *op; else memset(&e_st[e_ns].op, 0, sizeof(vop_t));
    e_st[e_ns].depth = parent < 0 ? 0 : e_st[parent].depth + 1;
    e_ht_insert_raw((int)e_ns);
    return (int)e_ns++;
}
/* re-execute the path leading to state idx */
static void e_goto(int idx)
{
    static vop_t *path; static int pcap;
    int d = e_st[idx].depth, i, s = idx;
    static jb_t scratch;
    if (d > pcap) { pcap = d + 64; path = e_realloc(path, (size_t)pcap * sizeof *path); }
    for (i = d - 1; i >= 0; i--) { path[i] = e_st[s].op; s = e_st[s].parent; }
    drv_reset();
    for (i = 0; i < d; i++) {
        jb_reset(&scratch);
        (void)e_apply(&path[i], &scratch);
    }
}
static void e_path_json(int idx, jb_t *b)
{
    int d = e_st[idx].depth, i, s = idx;
    vop_t *path = e_malloc(((size_t)d + 1) * sizeof *path);
    for (i = d - 1; i >= 0; i--) { path[i] = e_st[s].op; s = e_st[s].parent; }
    jb_puts(b, "[");
    for (i = 0; i < d; i++) {
        int j;
        jb_printf(b, "%s[%d", i ? "," : "", path[i].k);
        for (j = 0; j < VOP_NARGS; j++) jb_printf(b, ",%d", path[i].a[j]);
        jb_puts(b, "]");
    }
    jb_puts(b, "]");
    e_free(path);
}

/* ---------------------------------------------------------------- record output */
static FILE *e_out;
static unsigned long e_nrec;
static int e_fatal_seen, e_fatal_skipped;

static void e_emit(int sid, const vop_t *op, const char *outcome,
                   const jb_t *res, const char *pre, const char *post,
                   const char *extra)
{
    static jb_t ob;
    jb_reset(&ob);
    drv_opjson(op, &ob);
    fprintf(e_out, "{\"id\":%lu,\"sid\":%d,%s,\"out\":\"%s\"%s%s,\"pre\":%s,\"post\":%s}\n",
            ++e_nrec, sid, ob.p, outcome, res->p, extra ? extra : "", pre, post);
}
static void e_emit_header(const char *mode)
{
    static jb_t hb;
    jb_reset(&hb);
    drv_header(&hb);
    fprintf(e_out, "{\"id\":0,\"hdr\":true,\"mode\":\"%s\"%s%s}\n", mode,
            hb.n ? "," : "", hb.p);
}

/* ---------------------------------------------------------------- modes */
#define E_MAXOPS 4096
static long e_pathof = -1;     /* pathof mode: stop when this state index exists and print how to reach it */
static int e_explore(long maxstates)
{
    static jb_t pre, post, res;
    static vop_t ops[E_MAXOPS];
    size_t i; unsigned long ntr = 0; int maxdepth = 0;
    e_emit_header("explore");
    drv_reset(); jb_reset(&pre); drv_ser(&pre);
    e_add(pre.p, -1, NULL);
    for (i = 0; i < e_ns && !e_fatal_seen; i++) {
        int no, j;
        if (e_pathof >= 0 && (long)e_ns > e_pathof) {
            /* the state exists: print the operations that lead to it, one replay line each */
            int d = e_st[e_pathof].depth, k, sidx = (int)e_pathof;
            vop_t *path = e_malloc(((size_t)d + 1) * sizeof *path);
            for (k = d - 1; k >= 0; k--) { path[k] = e_st[sidx].op; sidx = e_st[sidx].parent; }
            printf("reset\n");
            for (k = 0; k < d; k++) { int q; printf("%d", path[k].k); for (q = 0; q < VOP_NARGS; q++) printf(" %d", path[k].a[q]); printf("\n"); }
            return 0;
        }
        e_goto((int)i);
        no = drv_enum(ops, E_MAXOPS);
        if (no > E_MAXOPS) { fprintf(stderr, "engine: too many ops\n"); return 72; }
        for (j = 0; j < no; j++) {
            const char *outcome;
            if (j > 0) e_goto((int)i);
            jb_reset(&pre); drv_ser(&pre);
            jb_reset(&res);
            outcome = e_apply(&ops[j], &res);
            jb_reset(&post);
            if (e_is_fatal(outcome)) jb_puts(&post, "{\"bad\":true}"); else drv_ser(&post);
            e_emit((int)i, &ops[j], outcome, &res, pre.p, post.p, NULL);
            ntr++;
            if (e_is_fatal(outcome)) {
                /* memory may be corrupt: stop exploring, the record is judged.  VERIF_SKIP_FATAL: the record did not
                 * decide the property being checked, so the exploration goes on around it (every state is re-reached
                 * from reset) for a bounded number of such outcomes */
                if (!getenv("VERIF_SKIP_FATAL") || ++e_fatal_skipped > 25) { e_fatal_seen = 1; break; }
                continue;
            }
            if (!strcmp(outcome, "ok") && !drv_terminal(&ops[j]) && e_lookup(post.p) < 0) {
                if (maxstates > 0 && (long)e_ns >= maxstates) continue;
                e_add(post.p, (int)i, &ops[j]);
                if (e_st[e_ns - 1].depth > maxdepth) maxdepth = e_st[e_ns - 1].depth;
            }
        }
        fflush(e_out);
    }
    printf("{\"mode\":\"explore\",\"impl_states\":%zu,\"transitions\":%lu,\"depth\":%d,\"fatal\":%d,\"complete\":%s}\n",
           e_ns, ntr, maxdepth, e_fatal_seen,
           (!e_fatal_seen && !(maxstates > 0 && (long)e_ns >= maxstates)) ? "true" : "false");
    return 0;
}

static unsigned long e_rng_s[2];
static unsigned long e_rnd(void)
{   /* xorshift128+ */
    unsigned long x = e_rng_s[0], y = e_rng_s[1];
    e_rng_s[0] = y; x ^= x << 23;
    e_rng_s[1] = x ^ y ^ (x >> 17) ^ (y >> 26);
    return e_rng_s[1] + y;
}
static void e_seed(unsigned long s)
{
    int i;
    e_rng_s[0] = s * 0x9E3779B97F4A7C15UL + 0x1234567;
    e_rng_s[1] = (s ^ 0xDEADBEEFCAFEBABEUL) * 0xBF58476D1CE4E5B9UL + 1;
    for (i = 0; i < 16; i++) (void)e_rnd();
}
static int e_random(unsigned long seed, long steps, int restarts)
{
    static jb_t pre, post, res;
    long s; int r; unsigned long ntr = 0;
    e_emit_header("random");
    e_seed(seed);
    /* `restarts` walks of `steps` steps each; an operation that aborts ends the
     * process in real life, so the walk continues from a fresh state */
    for (r = 0; r < restarts && !e_fatal_seen; r++) {
        int epoch = 0;
        drv_reset();
        for (s = 0; s < steps; s++) {
            vop_t op; const char *outcome;
            memset(&op, 0, sizeof op);
            if (!drv_random(e_rnd, &op)) break;
            jb_reset(&pre); drv_ser(&pre);
            jb_reset(&res);
            outcome = e_apply(&op, &res);
            jb_reset(&post);
            if (e_is_fatal(outcome)) jb_puts(&post, "{\"bad\":true}"); else drv_ser(&post);
            e_emit(r * 1000 + epoch, &op, outcome, &res, pre.p, post.p, NULL);
            ntr++;
            if (e_is_fatal(outcome)) { e_fatal_seen = 1; break; }
            if (strcmp(outcome, "ok") || drv_terminal(&op)) { drv_reset(); epoch++; }
        }
        fflush(e_out);
    }
    printf("{\"mode\":\"random\",\"transitions\":%lu,\"fatal\":%d}\n", ntr, e_fatal_seen);
    return 0;
}
static int e_replay(const char *in)
{
    static jb_t pre, post, res;
    FILE *f = fopen(in, "r"); char line[512]; unsigned long ntr = 0; int beh = 0, dead = 0;
    if (!f) { perror(in); return 73; }
    e_emit_header("replay");
    drv_reset();
    while (fgets(line, sizeof line, f)) {
        vop_t op; const char *outcome; int n;
        if (!strncmp(line, "reset", 5)) { drv_reset(); beh++; dead = 0; continue; }
        if (dead) continue;
        memset(&op, 0, sizeof op);
        n = sscanf(line, "%d %d %d %d %d %d %d", &op.k, &op.a[0], &op.a[1], &op.a[2], &op.a[3], &op.a[4], &op.a[5]);
        if (n < 1) continue;
        jb_reset(&pre); drv_ser(&pre);
        jb_reset(&res);
        outcome = e_apply(&op, &res);
        jb_reset(&post);
        if (e_is_fatal(outcome)) jb_puts(&post, "{\"bad\":true}"); else drv_ser(&post);
        e_emit(beh, &op, outcome, &res, pre.p, post.p, NULL);
        ntr++;
        if (e_is_fatal(outcome)) { e_fatal_seen = 1; break; }
        if (strcmp(outcome, "ok")) dead = 1;
    }
    fclose(f);
    printf("{\"mode\":\"replay\",\"transitions\":%lu,\"behaviours\":%d,\"fatal\":%d}\n", ntr, beh, e_fatal_seen);
    return 0;
}

static int e_main(int argc, char **argv)
{
    int i, dd = argc, rc;
    static char obuf[1 << 20];
    for (i = 1; i < argc; i++) if (!strcmp(argv[i], "--")) { dd = i; break; }
    if (argc < 3) { fprintf(stderr, "usage: %s explore|random|replay ... -- scope\n", argv[0]); return 64; }
    if (getenv("VERIF_HANG_SECS")) e_hang_secs = atoi(getenv("VERIF_HANG_SECS"));
    drv_setup(argc - dd - (dd < argc), argv + dd + (dd < argc));
    e_install();
    if (!strcmp(argv[1], "pathof")) {
        /* pathof <sid> : same exploration order as `explore`, no trace written */
        e_pathof = atol(argv[2]);
        e_out = fopen("/dev/null", "w");
        rc = e_explore(0);
    } else if (!strcmp(argv[1], "explore")) {
        e_out = fopen(argv[2], "w"); if (!e_out) { perror(argv[2]); return 73; }
        setvbuf(e_out, obuf, _IOFBF, sizeof obuf);
        rc = e_explore(dd > 3 ? atol(argv[3]) : 0);
    } else if (!strcmp(argv[1], "random")) {
        if (dd < 5) return 64;
        e_out = fopen(argv[2], "w"); if (!e_out) { perror(argv[2]); return 73; }
        setvbuf(e_out, obuf, _IOFBF, sizeof obuf);
        rc = e_random(strtoul(argv[3], NULL, 10), atol(argv[4]), dd > 5 ? atoi(argv[5]) : 1);
    } else if (!strcmp(argv[1], "replay")) {
        if (dd < 4) return 64;
        e_out = fopen(argv[3], "w"); if (!e_out) { perror(argv[3]); return 73; }
        setvbuf(e_out, obuf, _IOFBF, sizeof obuf);
        rc = e_replay(argv[2]);
    } else return 64;
    fclose(e_out);
    return rc;
}
#endif
